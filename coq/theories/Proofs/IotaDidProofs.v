From Coq Require Import List NArith Bool Arith Lia.
From IdV Require Import Lib.Outcome Did.DidParse Did.IotaDid Proofs.DidProofs Proofs.DidUrlProofs Proofs.DidCompleteProofs.
Import ListNotations.
Open Scope N_scope.

Lemma split_colon_spec l n t : split_colon l = Some (n, t) -> l = n ++ 58 :: t /\ existsb (N.eqb 58) n = false.
Proof.
  revert n t. induction l as [|c r IH]; intros n t H; cbn in H; [discriminate|].
  destruct (c =? 58) eqn:E.
  - apply N.eqb_eq in E. inversion H; subst. split; reflexivity.
  - destruct (split_colon r) as [[a b]|]; [|discriminate]. inversion H; subst.
    destruct (IH a t eq_refl) as [A B]. subst r. split; [reflexivity|]. cbn [existsb]. rewrite N.eqb_sym, E. exact B.
Qed.
Lemma split_colon_none l : split_colon l = None -> existsb (N.eqb 58) l = false.
Proof.
  induction l as [|c r IH]; cbn [split_colon existsb]; [reflexivity|]. destruct (c =? 58) eqn:E; [discriminate|].
  destruct (split_colon r) as [[a b]|]; [discriminate|]. intros _. rewrite N.eqb_sym, E. auto.
Qed.
Lemma split_colon_app n t : existsb (N.eqb 58) n = false -> split_colon (n ++ 58 :: t) = Some (n, t).
Proof.
  induction n as [|c r IH]; cbn [app split_colon existsb]; intros H; [rewrite N.eqb_refl; reflexivity|].
  apply orb_false_elim in H as [H1 H2]. rewrite N.eqb_sym in H1. rewrite H1, (IH H2). reflexivity.
Qed.

Lemma list_eqb_refl a : list_eqb a a = true.
Proof. induction a; cbn; [reflexivity|]. rewrite N.eqb_refl. exact IHa. Qed.
Lemma list_eqb_false a b : list_eqb a b = false -> a <> b.
Proof. intros H E. subst. rewrite list_eqb_refl in H. discriminate. Qed.

Lemma tag_no_colon t : tag_ok t = true -> existsb (N.eqb 58) t = false.
Proof.
  unfold tag_ok. destruct t as [|z [|x r]]; try discriminate. intros H.
  apply andb_prop in H as [H Hh]. apply andb_prop in H as [H _]. apply andb_prop in H as [Hz Hx].
  apply N.eqb_eq in Hz, Hx. subst. cbn [existsb].
  replace (58 =? 48) with false by reflexivity. replace (58 =? 120) with false by reflexivity. cbn [orb].
  induction r as [|c r IH]; [reflexivity|]. cbn [existsb forallb] in *. apply andb_prop in Hh as [A B]. rewrite (IH B), orb_false_r.
  destruct (58 =? c) eqn:E; [|reflexivity]. apply N.eqb_eq in E. subst. discriminate.
Qed.

(* shape of every accepted IOTA DID *)

Theorem iota_parse_shape s v : iota_parse s = Ok v ->
  tag_ok (iota_tag v) = true /\ net_ok (iota_network v) = true /\ iota_normal v
  /\ (v = iota_tag v \/ v = iota_network v ++ 58 :: iota_tag v)
  /\ exists i, core_did_parse (to_lower s) = Ok (IOTA, i) /\ v = iota_normalize i.
Proof.
  unfold iota_parse. destruct (core_did_parse (to_lower s)) as [[m i]|e|] eqn:P; try discriminate.
  destruct (list_eqb m IOTA) eqn:Em; cbn [negb]; [|discriminate]. apply list_eqb_eq in Em. subst m.
  unfold denorm, iota_normalize, iota_tag, iota_network, iota_normal.
  destruct (split_colon i) as [[n t]|] eqn:S.
  - destruct (tag_ok t) eqn:Tt; cbn [negb]; [|discriminate].
    destruct (net_ok n) eqn:Nn; cbn [negb]; [|discriminate].
    intros H; inversion H; subst v; clear H.
    destruct (list_eqb n IOTA) eqn:En.
    + (* default network spelled out: normalised to the bare tag, which has no colon *)
      pose proof (tag_no_colon _ Tt) as Nc.
      assert (split_colon t = None) as St.
      { destruct (split_colon t) as [[a b]|] eqn:X; [|reflexivity].
        apply split_colon_spec in X as [X _]. subst t. rewrite existsb_app in Nc. cbn in Nc.
        rewrite orb_true_r in Nc. discriminate. }
      unfold denorm. rewrite St. cbn [fst snd]. repeat split; auto.
      eexists; split; [reflexivity|]. rewrite S, En. reflexivity.
    + unfold denorm. rewrite S. cbn [fst snd]. apply list_eqb_false in En.
      destruct (split_colon_spec _ _ _ S) as [Ei _]. repeat split; auto.
      eexists; split; [reflexivity|]. rewrite S. destruct (list_eqb n IOTA) eqn:X; [apply list_eqb_eq in X; congruence|reflexivity].
  - cbn [fst snd]. destruct (tag_ok i) eqn:Tt; cbn [negb]; [|discriminate].
    destruct (net_ok IOTA) eqn:Nn; cbn [negb]; [|discriminate].
    intros H; inversion H; subst v; clear H. unfold denorm. rewrite S. cbn [fst snd]. repeat split; auto.
    eexists; split; [reflexivity|]. rewrite S. reflexivity.
Qed.

(* two IOTA DIDs in normal form are equal exactly when network and tag are equal *)
Theorem iota_eq_iff a b : iota_normal a -> iota_normal b ->
  (a = b <-> (iota_network a = iota_network b /\ iota_tag a = iota_tag b)).
Proof.
  unfold iota_normal, iota_network, iota_tag, denorm. intros Na Nb. split; [intros ->; auto|].
  destruct (split_colon a) as [[na ta]|] eqn:Sa; destruct (split_colon b) as [[nb tb]|] eqn:Sb; cbn [fst snd]; intros [En Et].
  - apply split_colon_spec in Sa as [-> _]. apply split_colon_spec in Sb as [-> _]. congruence.
  - congruence.
  - exfalso. apply Nb. congruence.
  - exact Et.
Qed.

(* ---- lower-casing ---- *)
Definition not_upper (c : N) : bool := negb (is_upper c).
Definition lower_stable (c : N) : bool := (c <? 128) && negb (is_upper c).

Lemma ascii_lower_not_upper c : not_upper (ascii_lower c) = true.
Proof.
  unfold not_upper, is_upper, ascii_lower.
  destruct (N.leb_spec 65 c); destruct (N.leb_spec c 90); cbn [andb];
  repeat match goal with |- context [?a <=? ?b] => destruct (N.leb_spec a b); try lia end; reflexivity.
Qed.

Lemma to_lower_cons2 c a r1 : to_lower (c :: a :: r1) =
  if (c =? 196) && (a =? 176) then 105 :: 204 :: 135 :: to_lower r1
  else match r1 with
       | b :: r2 => if (c =? 226) && (a =? 132) && (b =? 170) then 107 :: to_lower r2 else ascii_lower c :: to_lower (a :: r1)
       | [] => ascii_lower c :: to_lower (a :: r1)
       end.
Proof. destruct r1; reflexivity. Qed.

Lemma to_lower_not_upper_n : forall n l, (length l <= n)%nat -> forallb not_upper (to_lower l) = true.
Proof.
  induction n as [|n IH]; intros l Hl.
  - destruct l; [reflexivity|cbn in Hl; lia].
  - destruct l as [|c [|a r1]]; [reflexivity|cbn [to_lower forallb]; rewrite ascii_lower_not_upper; reflexivity|].
    cbn [length] in Hl. rewrite to_lower_cons2.
    destruct ((c =? 196) && (a =? 176)).
    + cbn [forallb]. change (not_upper 105) with true. change (not_upper 204) with true. change (not_upper 135) with true.
      cbn [andb]. apply IH. lia.
    + destruct r1 as [|b r2].
      * cbn [forallb]. rewrite ascii_lower_not_upper. cbn [andb]. apply (IH [a]). cbn [length]. lia.
      * destruct ((c =? 226) && (a =? 132) && (b =? 170)).
        -- cbn [forallb]. change (not_upper 107) with true. cbn [andb]. apply IH. cbn [length] in *. lia.
        -- cbn [forallb]. rewrite ascii_lower_not_upper. cbn [andb]. apply (IH (a :: b :: r2)). cbn [length] in *. lia.
Qed.
Lemma to_lower_not_upper l : forallb not_upper (to_lower l) = true.
Proof. exact (to_lower_not_upper_n (length l) l (le_n _)). Qed.

Lemma ascii_lower_stable c : lower_stable c = true -> ascii_lower c = c.
Proof.
  unfold lower_stable, is_upper, ascii_lower. intros H. apply andb_prop in H as [_ H]. apply negb_true_iff in H. rewrite H. reflexivity.
Qed.
Lemma stable_lt c : lower_stable c = true -> c < 128.
Proof. unfold lower_stable. intros H. apply andb_prop in H as [H _]. apply N.ltb_lt. exact H. Qed.

Lemma to_lower_stable_n : forall n l, (length l <= n)%nat -> forallb lower_stable l = true -> to_lower l = l.
Proof.
  induction n as [|n IH]; intros l Hl H.
  - destruct l; [reflexivity|cbn in Hl; lia].
  - destruct l as [|c [|a r1]]; [reflexivity| |].
    + cbn [forallb] in H. apply andb_prop in H as [H _]. cbn [to_lower]. rewrite (ascii_lower_stable _ H). reflexivity.
    + cbn [length] in Hl. pose proof H as H0. cbn [forallb] in H. apply andb_prop in H as [Hc H].
      pose proof (stable_lt _ Hc) as Lc. rewrite to_lower_cons2.
      replace (c =? 196) with false by (symmetry; apply N.eqb_neq; lia). cbn [andb].
      assert (to_lower (a :: r1) = a :: r1) as E by (apply IH; [cbn [length]; lia|exact H]).
      destruct r1 as [|b r2].
      * rewrite (ascii_lower_stable _ Hc), E. reflexivity.
      * replace (c =? 226) with false by (symmetry; apply N.eqb_neq; lia). cbn [andb].
        rewrite (ascii_lower_stable _ Hc), E. reflexivity.
Qed.
Lemma to_lower_stable l : forallb lower_stable l = true -> to_lower l = l.
Proof. exact (to_lower_stable_n (length l) l (le_n _)). Qed.

(* ---- character classes of tags and network names ---- *)
Lemma mid_lt128 c : char_method_id c = true -> c <? 128 = true.
Proof.
  unfold char_method_id, is_digit, is_lower, is_upper. intros H. apply N.ltb_lt.
  repeat match type of H with context [?a <=? ?b] => destruct (N.leb_spec a b); try lia end;
  repeat match type of H with context [?a =? ?b] => destruct (N.eqb_spec a b); try lia end; cbn in H; discriminate.
Qed.
Lemma hexdig_mid c : is_hexdig c = true -> char_method_id c = true.
Proof.
  unfold is_hexdig, char_method_id, is_digit, is_lower, is_upper. intros H.
  repeat match type of H with context [?a <=? ?b] => destruct (N.leb_spec a b); try lia end;
  repeat match goal with |- context [?a <=? ?b] => destruct (N.leb_spec a b); try lia end; cbn in *; try discriminate; reflexivity.
Qed.
Lemma lowdig_mid c : is_lower c || is_digit c = true -> char_method_id c = true.
Proof. unfold char_method_id. intros H. apply orb_prop in H as [H|H]; rewrite H; rewrite ?orb_true_r; reflexivity. Qed.
Lemma lowdig_not_colon c : is_lower c || is_digit c = true -> (58 =? c) = false.
Proof.
  unfold is_lower, is_digit. intros H. apply N.eqb_neq. intros <-. cbn in H. discriminate.
Qed.

Lemma tag_class t : tag_ok t = true -> forallb char_method_id t = true /\ t <> [].
Proof.
  unfold tag_ok. destruct t as [|z [|x r]]; try discriminate. intros H.
  apply andb_prop in H as [H Hh]. apply andb_prop in H as [H _]. apply andb_prop in H as [Hz Hx].
  apply N.eqb_eq in Hz, Hx. subst. split; [|discriminate]. cbn [forallb].
  change (char_method_id 48) with true. change (char_method_id 120) with true. cbn [andb].
  revert Hh. apply forallb_imp. exact hexdig_mid.
Qed.
Lemma net_class n : net_ok n = true -> forallb char_method_id n = true /\ n <> [] /\ existsb (N.eqb 58) n = false.
Proof.
  unfold net_ok. intros H. apply andb_prop in H as [H Hc]. apply andb_prop in H as [Hn _].
  split; [revert Hc; apply forallb_imp; exact lowdig_mid|]. split; [destruct n; [discriminate|discriminate]|].
  induction n as [|c n IH]; [reflexivity|]. cbn [forallb existsb] in *. apply andb_prop in Hc as [Hc1 Hc2].
  rewrite (lowdig_not_colon _ Hc1). cbn [orb]. destruct n as [|c' n']; [reflexivity|]. apply IH; [reflexivity|exact Hc2].
Qed.

Lemma list_eqb_neq a b : a <> b -> list_eqb a b = false.
Proof. intros H. destruct (list_eqb a b) eqn:E; [apply list_eqb_eq in E; contradiction|reflexivity]. Qed.

Lemma normalize_normal v : iota_normal v -> iota_normalize v = v.
Proof.
  unfold iota_normal, iota_normalize. destruct (split_colon v) as [[n t]|]; [|reflexivity]. intros H. rewrite (list_eqb_neq _ _ H). reflexivity.
Qed.

Lemma stable_of v : forallb char_method_id v = true -> forallb not_upper v = true -> forallb lower_stable v = true.
Proof.
  induction v as [|c v IH]; [reflexivity|]. cbn [forallb]. intros H1 H2. apply andb_prop in H1 as [A1 B1]. apply andb_prop in H2 as [A2 B2].
  unfold lower_stable at 1. rewrite (mid_lt128 _ A1). unfold not_upper in A2. rewrite A2. cbn [andb]. exact (IH B1 B2).
Qed.

(* an IOTA DID value in normal form with valid network and tag, written in lower case, parses to itself *)
Lemma iota_parse_value v : forallb not_upper v = true -> iota_normal v -> tag_ok (iota_tag v) = true -> net_ok (iota_network v) = true ->
  (v = iota_tag v \/ v = iota_network v ++ 58 :: iota_tag v) -> iota_parse (iota_to_string v) = Ok v.
Proof.
  intros Up Nv Tt Nn Hv.
  destruct (tag_class _ Tt) as [Ct Nt]. destruct (net_class _ Nn) as [Cn [Nne _]].
  assert (forallb char_method_id v = true /\ v <> []) as [Cv Nev].
  { destruct Hv as [E|E]; rewrite E.
    - auto.
    - split; [|destruct (iota_network v); [contradiction|discriminate]]. rewrite forallb_app. rewrite Cn. cbn [forallb andb]. rewrite Ct. reflexivity. }
  assert (to_lower (iota_to_string v) = iota_to_string v) as L.
  { apply to_lower_stable. unfold iota_to_string. rewrite forallb_app. apply andb_true_intro. split; [reflexivity|]. exact (stable_of v Cv Up). }
  assert (core_did_parse (iota_to_string v) = Ok (IOTA, v)) as P.
  { change (iota_to_string v) with ([100; 105; 100; 58] ++ IOTA ++ [58] ++ v). apply core_did_complete; auto; discriminate. }
  unfold iota_parse. rewrite L, P. change (list_eqb IOTA IOTA) with true. cbn [negb].
  unfold iota_tag, iota_network in Tt, Nn. destruct (denorm v) as [n t]. cbn [fst snd] in Tt, Nn. rewrite Tt, Nn. cbn [negb].
  rewrite (normalize_normal v Nv). reflexivity.
Qed.

Lemma not_upper_app a b : forallb not_upper (a ++ b) = true -> forallb not_upper b = true.
Proof. rewrite forallb_app. intros H. apply andb_prop in H. tauto. Qed.

(* C17: every accepted IOTA DID re-parses from its string form to the same value *)
Theorem iota_reparse s v : iota_parse s = Ok v -> iota_parse (iota_to_string v) = Ok v.
Proof.
  intros H. destruct (iota_parse_shape s v H) as [Tt [Nn [Nv [Hv [i [P Ev]]]]]].
  apply iota_parse_value; auto.
  (* v is a suffix of the lower-cased input *)
  destruct (core_did_parse_sound _ _ _ P) as [Es _].
  pose proof (to_lower_not_upper s) as U. rewrite Es in U.
  assert (forallb not_upper i = true) as Ui.
  { apply not_upper_app in U. apply not_upper_app in U. apply not_upper_app in U. exact U. }
  subst v. unfold iota_normalize. destruct (split_colon i) as [[n t]|] eqn:S; [|exact Ui].
  destruct (list_eqb n IOTA); [|exact Ui].
  apply split_colon_spec in S as [S _]. rewrite S in Ui. apply not_upper_app in Ui. cbn [forallb] in Ui. apply andb_prop in Ui. tauto.
Qed.

(* C17: IotaDID::new(tag bytes, network): the lower-case hex of the 32 bytes and a valid network name *)
Definition is_lower_hexdig c := is_digit c || ((97 <=? c) && (c <=? 102)).
Lemma lower_hex_hexdig c : is_lower_hexdig c = true -> is_hexdig c = true.
Proof. unfold is_lower_hexdig, is_hexdig. intros H. apply orb_prop in H as [H|H]; rewrite H; rewrite ?orb_true_r; reflexivity. Qed.
Lemma lower_hex_not_upper c : is_lower_hexdig c = true -> not_upper c = true.
Proof.
  unfold is_lower_hexdig, not_upper, is_upper, is_digit. intros H.
  repeat match type of H with context [?a <=? ?b] => destruct (N.leb_spec a b); try lia end;
  repeat match goal with |- context [?a <=? ?b] => destruct (N.leb_spec a b); try lia end; cbn in *; try discriminate; reflexivity.
Qed.
Lemma lowdig_not_upper c : is_lower c || is_digit c = true -> not_upper c = true.
Proof.
  unfold not_upper, is_upper, is_digit, is_lower. intros H.
  repeat match type of H with context [?a <=? ?b] => destruct (N.leb_spec a b); try lia end;
  repeat match goal with |- context [?a <=? ?b] => destruct (N.leb_spec a b); try lia end; cbn in *; try discriminate; reflexivity.
Qed.

Theorem iota_new_spec th n : length th = 64%nat -> forallb is_lower_hexdig th = true -> net_ok n = true ->
  exists v, iota_new th n = Ok v /\ iota_tag v = 48 :: 120 :: th /\ iota_network v = n /\ iota_normal v
            /\ (n = IOTA -> v = 48 :: 120 :: th) /\ (n <> IOTA -> v = n ++ 58 :: 48 :: 120 :: th).
Proof.
  intros Lt Ht Hn. set (t := 48 :: 120 :: th). set (i := n ++ 58 :: t).
  destruct (net_class _ Hn) as [Cn [Nne Ncol]].
  assert (tag_ok t = true) as Tt.
  { unfold t, tag_ok. change (48 =? 48) with true. change (120 =? 120) with true. rewrite Lt. cbn [andb Nat.eqb].
    change (Nat.eqb 64 64) with true. cbn [andb]. revert Ht. apply forallb_imp. exact lower_hex_hexdig. }
  destruct (tag_class _ Tt) as [Ct Nt].
  assert (forallb not_upper i = true) as Ui.
  { unfold i, t. rewrite forallb_app. apply andb_true_intro. split.
    - unfold net_ok in Hn. apply andb_prop in Hn as [_ Hc]. revert Hc. apply forallb_imp. exact lowdig_not_upper.
    - cbn [forallb]. change (not_upper 58) with true. change (not_upper 48) with true. change (not_upper 120) with true. cbn [andb].
      revert Ht. apply forallb_imp. exact lower_hex_not_upper. }
  assert (forallb char_method_id i = true) as Ci.
  { unfold i. rewrite forallb_app, Cn. cbn [forallb andb]. change (char_method_id 58) with true. cbn [andb]. exact Ct. }
  assert (iota_parse (DID_IOTA_PREFIX ++ n ++ [58] ++ [48; 120] ++ th) = Ok (iota_normalize i)) as P.
  { change (DID_IOTA_PREFIX ++ n ++ [58] ++ [48; 120] ++ th) with (iota_to_string i).
    assert (to_lower (iota_to_string i) = iota_to_string i) as L.
    { apply to_lower_stable. unfold iota_to_string. rewrite forallb_app. apply andb_true_intro. split; [reflexivity|]. exact (stable_of i Ci Ui). }
    assert (core_did_parse (iota_to_string i) = Ok (IOTA, i)) as Pc.
    { change (iota_to_string i) with ([100; 105; 100; 58] ++ IOTA ++ [58] ++ i). apply core_did_complete; auto; try discriminate.
      unfold i. destruct n; discriminate. }
    unfold iota_parse. rewrite L, Pc. change (list_eqb IOTA IOTA) with true. cbn [negb].
    unfold denorm, i. rewrite (split_colon_app n t Ncol). rewrite Tt, Hn. reflexivity. }
  exists (iota_normalize i). split; [unfold iota_new; rewrite P; reflexivity|].
  unfold iota_normalize, i. rewrite (split_colon_app n t Ncol).
  assert (split_colon t = None) as St.
  { pose proof (tag_no_colon _ Tt) as Nc. destruct (split_colon t) as [[a b]|] eqn:X; [|reflexivity].
    apply split_colon_spec in X as [X _]. rewrite X in Nc. rewrite existsb_app in Nc. cbn in Nc. rewrite orb_true_r in Nc. discriminate. }
  destruct (list_eqb n IOTA) eqn:En.
  - apply list_eqb_eq in En. unfold iota_tag, iota_network, iota_normal, denorm. rewrite St. cbn [fst snd].
    repeat split; auto. intros X; contradiction.
  - apply list_eqb_false in En. unfold iota_tag, iota_network, iota_normal, denorm. rewrite (split_colon_app n t Ncol). cbn [fst snd].
    repeat split; auto. intros X; contradiction.
Qed.

(* totality: IotaDID::parse never panics on a percent-free input *)
(* ---- the other construction routes: try_from_core / TryFrom<CoreDID> / serde, and the id of a deserialised IotaDocument ---- *)
Lemma lower_colon c : (ascii_lower c =? 58) = (c =? 58).
Proof.
  unfold ascii_lower. destruct (N.leb_spec 65 c); destruct (N.leb_spec c 90); cbn [andb]; try reflexivity.
  destruct (N.eqb_spec (c + 32) 58); destruct (N.eqb_spec c 58); try reflexivity; lia.
Qed.
Lemma split_colon_lower l : split_colon (map ascii_lower l) =
  match split_colon l with Some (n, t) => Some (map ascii_lower n, map ascii_lower t) | None => None end.
Proof.
  induction l as [|c r IH]; [reflexivity|]. cbn [map split_colon]. rewrite lower_colon. destruct (c =? 58); [reflexivity|].
  rewrite IH. destruct (split_colon r) as [[a b]|]; reflexivity.
Qed.
Lemma map_lower_not_upper l : forallb not_upper (map ascii_lower l) = true.
Proof. induction l as [|c l IH]; [reflexivity|]. cbn [map forallb]. rewrite ascii_lower_not_upper. exact IH. Qed.
Lemma hexdig_lower c : is_hexdig c = true -> is_hexdig (ascii_lower c) = true.
Proof.
  intros H. unfold ascii_lower. destruct ((65 <=? c) && (c <=? 90)) eqn:E; [|exact H].
  apply andb_prop in E as [E1 E2]. apply N.leb_le in E1, E2.
  (* an upper-case hex digit: 65..70 *)
  assert (c <= 70) as Hc.
  { unfold is_hexdig, is_digit in H. repeat match type of H with context [?a <=? ?b] => destruct (N.leb_spec a b); try lia end; cbn in H; discriminate. }
  unfold is_hexdig, is_digit.
  replace (97 <=? c + 32) with true by (symmetry; apply N.leb_le; lia).
  replace (c + 32 <=? 102) with true by (symmetry; apply N.leb_le; lia).
  cbn [andb orb]. rewrite orb_true_r. reflexivity.
Qed.
Lemma tag_ok_lower t : tag_ok t = true -> tag_ok (map ascii_lower t) = true.
Proof.
  unfold tag_ok. destruct t as [|z [|x r]]; try discriminate. intros H.
  apply andb_prop in H as [H Hh]. apply andb_prop in H as [H Hl]. apply andb_prop in H as [Hz Hx].
  apply N.eqb_eq in Hz, Hx. subst. cbn [map]. change (ascii_lower 48) with 48. change (ascii_lower 120) with 120.
  change (48 =? 48) with true. change (120 =? 120) with true. rewrite map_length, Hl. cbn [andb].
  rewrite forallb_forall in *. intros y Hy. apply in_map_iff in Hy as [c [<- Hc]]. apply hexdig_lower, Hh, Hc.
Qed.
Lemma net_lower n : net_ok n = true -> map ascii_lower n = n.
Proof.
  unfold net_ok. intros H. apply andb_prop in H as [_ H]. induction n as [|c n IH]; [reflexivity|].
  cbn [forallb map] in *. apply andb_prop in H as [Hc Hn]. rewrite (IH Hn). f_equal.
  apply ascii_lower_stable. unfold lower_stable. apply lowdig_mid in Hc as Hm. rewrite (mid_lt128 _ Hm).
  apply lowdig_not_upper in Hc. unfold not_upper in Hc. rewrite Hc. reflexivity.
Qed.
Lemma mid_lower c : char_method_id c = true -> char_method_id (ascii_lower c) = true.
Proof.
  intros H. unfold ascii_lower. destruct ((65 <=? c) && (c <=? 90)) eqn:E; [|exact H].
  apply andb_prop in E as [E1 E2]. apply N.leb_le in E1, E2.
  unfold char_method_id, is_lower.
  replace (97 <=? c + 32) with true by (symmetry; apply N.leb_le; lia).
  replace (c + 32 <=? 122) with true by (symmetry; apply N.leb_le; lia).
  cbn [andb]. rewrite orb_true_r. reflexivity.
Qed.

(* what the checks of iota_from_core say about the method id: characters, and the lower-cased id is valid too *)
Lemma from_core_checks i : let '(n, t) := denorm i in tag_ok t = true -> net_ok n = true ->
  forallb char_method_id i = true /\ i <> []
  /\ denorm (map ascii_lower i) = (n, map ascii_lower t) /\ tag_ok (map ascii_lower t) = true.
Proof.
  unfold denorm. rewrite split_colon_lower. destruct (split_colon i) as [[n t]|] eqn:S.
  - intros Tt Nn. destruct (split_colon_spec _ _ _ S) as [-> _]. destruct (tag_class _ Tt) as [Ct Nt]. destruct (net_class _ Nn) as [Cn [Nne _]].
    split; [rewrite forallb_app, Cn; cbn [forallb andb]; exact Ct|]. split; [destruct n; [contradiction|discriminate]|].
    rewrite (net_lower _ Nn). split; [reflexivity|exact (tag_ok_lower _ Tt)].
  - intros Tt Nn. destruct (tag_class _ Tt) as [Ct Nt]. split; [exact Ct|]. split; [exact Nt|]. split; [reflexivity|exact (tag_ok_lower _ Tt)].
Qed.

Theorem iota_from_core_shape m i v : iota_from_core (m, i) = Ok v ->
  m = IOTA /\ tag_ok (iota_tag v) = true /\ net_ok (iota_network v) = true /\ iota_normal v
  /\ (v = iota_tag v \/ v = iota_network v ++ 58 :: iota_tag v) /\ forallb not_upper v = true
  /\ v = iota_normalize (map ascii_lower i).
Proof.
  unfold iota_from_core. destruct (list_eqb m IOTA) eqn:Em; cbn [negb]; [|discriminate]. apply list_eqb_eq in Em.
  pose proof (from_core_checks i) as C. destruct (denorm i) as [n t] eqn:D.
  destruct (tag_ok t) eqn:Tt; cbn [negb]; [|discriminate]. destruct (net_ok n) eqn:Nn; cbn [negb]; [|discriminate].
  destruct (C eq_refl eq_refl) as [Ci [Ni [Dl Ttl]]]. intros H; inversion H; subst v; clear H.
  split; [exact Em|]. set (i' := map ascii_lower i) in *. set (t' := map ascii_lower t) in *.
  assert (forallb not_upper i' = true) as Ui by apply map_lower_not_upper.
  assert (forallb not_upper t' = true) as Ut by apply map_lower_not_upper.
  unfold iota_normalize, iota_tag, iota_network, iota_normal. unfold denorm in Dl.
  destruct (split_colon i') as [[n0 t0]|] eqn:S.
  - inversion Dl; subst n0 t0; clear Dl. destruct (list_eqb n IOTA) eqn:En.
    + pose proof (tag_no_colon _ Ttl) as Nc.
      assert (split_colon t' = None) as St.
      { destruct (split_colon t') as [[a b]|] eqn:X; [|reflexivity].
        apply split_colon_spec in X as [X _]. rewrite X in Nc. rewrite existsb_app in Nc. cbn in Nc. rewrite orb_true_r in Nc. discriminate. }
      unfold denorm. rewrite St. cbn [fst snd]. apply list_eqb_eq in En. subst n. repeat split; auto.
    + unfold denorm. rewrite S. cbn [fst snd]. apply list_eqb_false in En. destruct (split_colon_spec _ _ _ S) as [Ei _].
      repeat split; auto.
  - inversion Dl; subst n; clear Dl. unfold denorm. rewrite S. cbn [fst snd].
    assert (t' = i') as Et.
    { unfold t', i'. unfold denorm in D. destruct (split_colon i) as [[a b]|] eqn:S0; [|inversion D; reflexivity].
      unfold i' in S. rewrite split_colon_lower, S0 in S. discriminate. }
    rewrite <- Et. repeat split; auto.
Qed.

(* lower-casing a string of ASCII bytes is the byte-wise map *)
Lemma to_lower_ascii_n : forall n l, (length l <= n)%nat -> forallb (fun c => c <? 128) l = true -> to_lower l = map ascii_lower l.
Proof.
  induction n as [|n IH]; intros l Hl H.
  - destruct l; [reflexivity|cbn in Hl; lia].
  - destruct l as [|c [|a r1]]; [reflexivity|reflexivity|].
    cbn [length] in Hl. pose proof H as H0. cbn [forallb] in H. apply andb_prop in H as [Hc H]. apply N.ltb_lt in Hc.
    rewrite to_lower_cons2.
    replace (c =? 196) with false by (symmetry; apply N.eqb_neq; lia). cbn [andb].
    assert (to_lower (a :: r1) = map ascii_lower (a :: r1)) as E by (apply IH; [cbn [length]; lia|exact H]).
    destruct r1 as [|b r2].
    + rewrite E. reflexivity.
    + replace (c =? 226) with false by (symmetry; apply N.eqb_neq; lia). cbn [andb]. rewrite E. reflexivity.
Qed.

(* every route agrees with IotaDID::parse: what try_from_core (TryFrom<CoreDID>, serde) accepts, parse accepts with the SAME value *)
Theorem iota_try_from_core_agrees s v : iota_try_from_core s = Ok v -> iota_parse s = Ok v.
Proof.
  unfold iota_try_from_core. intros H. apply obind_ok in H as [[m i] [P F]].
  destruct (iota_from_core_shape m i v F) as [-> [_ [_ [_ [_ [_ Ev]]]]]].
  destruct (core_did_parse_sound _ _ _ P) as [Es _].
  (* the checks give the character class of i *)
  unfold iota_from_core in F. change (list_eqb IOTA IOTA) with true in F. cbn [negb] in F.
  pose proof (from_core_checks i) as C. destruct (denorm i) as [n t] eqn:D.
  destruct (tag_ok t) eqn:Tt; cbn [negb] in F; [|discriminate]. destruct (net_ok n) eqn:Nn; cbn [negb] in F; [|discriminate].
  destruct (C eq_refl eq_refl) as [Ci [Ni [Dl Ttl]]].
  assert (to_lower s = iota_to_string (map ascii_lower i)) as L.
  { rewrite Es. rewrite (to_lower_ascii_n (length ([100; 105; 100; 58] ++ IOTA ++ [58] ++ i)) _ (le_n _)).
    - rewrite !map_app. reflexivity.
    - rewrite !forallb_app. cbn [forallb IOTA andb]. cbn. revert Ci. apply forallb_imp. exact mid_lt128. }
  assert (core_did_parse (iota_to_string (map ascii_lower i)) = Ok (IOTA, map ascii_lower i)) as Pc.
  { change (iota_to_string (map ascii_lower i)) with ([100; 105; 100; 58] ++ IOTA ++ [58] ++ map ascii_lower i).
    apply core_did_complete; try discriminate; try reflexivity.
    - destruct i; [contradiction|discriminate].
    - rewrite forallb_forall in *. intros y Hy. apply in_map_iff in Hy as [c [<- Hc]]. apply mid_lower, Ci, Hc. }
  unfold iota_parse. rewrite L, Pc. change (list_eqb IOTA IOTA) with true. cbn [negb]. rewrite Dl, Ttl, Nn. cbn [negb]. rewrite Ev. reflexivity.
Qed.

(* the pinned tree (before fix e8fe5c5) kept an upper-case tag: refuted *)
Theorem iota_from_core_pinned_refuted : exists s v, obind (core_did_parse s) iota_from_core_pinned = Ok v /\ forallb not_upper v = false
  /\ exists w, iota_parse s = Ok w /\ w <> v.
Proof.
  exists (DID_IOTA_PREFIX ++ [48; 120] ++ repeat 70 64). eexists. split; [vm_compute; reflexivity|]. split; [vm_compute; reflexivity|].
  eexists. split; [vm_compute; reflexivity|]. vm_compute. discriminate.
Qed.

(* the id of a deserialised IotaDocument is an IOTA DID held verbatim in normal form *)
Theorem iota_doc_id_spec s v : iota_doc_id s = Ok v -> iota_parse s = Ok v /\ s = iota_to_string v.
Proof.
  unfold iota_doc_id. intros H. apply obind_ok in H as [[m i] [P H]]. apply obind_ok in H as [v0 [F H]]. cbn [snd] in H.
  destruct (list_eqb v0 i) eqn:E; [|discriminate]. inversion H; subst v0; clear H. apply list_eqb_eq in E. subst i.
  split.
  - apply iota_try_from_core_agrees. unfold iota_try_from_core. rewrite P. exact F.
  - destruct (iota_from_core_shape _ _ _ F) as [-> _]. destruct (core_did_parse_sound _ _ _ P) as [Es _]. exact Es.
Qed.
(* the pinned tree accepted ids outside the normal form: check_validity alone *)
Definition iota_doc_id_pinned (s : list N) : outcome (list N) did_err :=
  obind (core_did_parse s) (fun mi => obind (iota_from_core_pinned mi) (fun _ => Ok (snd mi))).
Theorem iota_doc_id_pinned_refuted : exists s v, iota_doc_id_pinned s = Ok v /\ ~ iota_normal v.
Proof.
  exists (DID_IOTA_PREFIX ++ IOTA ++ [58] ++ [48; 120] ++ repeat 49 64). eexists. split; [vm_compute; reflexivity|].
  unfold iota_normal. vm_compute. intros H. apply H. reflexivity.
Qed.
