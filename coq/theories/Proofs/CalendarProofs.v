(* civil_from_days / days_from_civil: one 400-year era is swept by computation (146097 days),
   the result is lifted to all of Z by the era-split lemmas (linear arithmetic). *)
From Coq Require Import List ZArith Lia Bool.
From IdV Require Import Lib.Calendar.
Open Scope Z_scope.
Ltac Zify.zify_post_hook ::= Z.to_euclidean_division_equations.

Fixpoint allb (n : nat) (z : Z) (f : Z -> bool) : bool :=
  match n with O => true | S n' => if f z then allb n' (z + 1) f else false end.

Lemma allb_spec n : forall z f, allb n z f = true -> forall k, z <= k < z + Z.of_nat n -> f k = true.
Proof.
  induction n as [|n IH]; intros z f H k Hk; [lia|].
  cbn [allb] in H. destruct (f z) eqn:E; [|discriminate].
  destruct (Z.eq_dec k z) as [->|N]; [exact E|]. apply (IH (z + 1) f H). lia.
Qed.

(* what is checked for every day of an era *)
Definition chk_era (doe : Z) : bool :=
  let '(y, m, d) := cfd_era doe in
  let yoe := if m <=? 2 then y - 1 else y in
  (dfc_era y m d =? doe) && (1 <=? m) && (m <=? 12) && (1 <=? d) && (d <=? dim y m)
  && (0 <=? yoe) && (yoe <=? 399) && Bool.eqb (DOE_JAN1 <=? doe) (y =? 400).

Definition sweep_f (f : Z -> bool) : bool :=
  allb 147 0 (fun c => allb 1000 (c * 1000) (fun z => (146097 <=? z) || f z)).
Lemma sweep_f_spec f : sweep_f f = true -> forall doe, 0 <= doe < 146097 -> f doe = true.
Proof.
  intros S doe H. unfold sweep_f in S.
  pose proof (allb_spec 147 0 _ S (doe / 1000)) as S1. cbv beta in S1.
  assert (0 <= doe / 1000 < 0 + Z.of_nat 147) as R1 by (clear S S1; change (Z.of_nat 147) with 147; lia).
  specialize (S1 R1).
  pose proof (allb_spec 1000 _ _ S1 doe) as S2. cbv beta in S2.
  assert (doe / 1000 * 1000 <= doe < doe / 1000 * 1000 + Z.of_nat 1000) as R2 by (clear S S1 S2; change (Z.of_nat 1000) with 1000; lia).
  specialize (S2 R2). apply orb_true_iff in S2 as [L|R]; [clear S S1; lia|exact R].
Qed.
Lemma era_ok : sweep_f chk_era = true.
Proof. vm_compute. reflexivity. Qed.
Definition era_all : forall doe, 0 <= doe < 146097 -> chk_era doe = true := sweep_f_spec chk_era era_ok.

Lemma cfd_split z :
  civil_from_days z =
  let z' := z + 719468 in let era := z' / 146097 in
  let '(y, m, d) := cfd_era (z' - era * 146097) in (y + era * 400, m, d).
Proof.
  unfold civil_from_days, cfd_era. cbv zeta.
  set (doe := z + 719468 - (z + 719468) / 146097 * 146097).
  destruct ((if _ <? 10 then _ else _) <=? 2); f_equal; f_equal; lia.
Qed.

Lemma dfc_split y m d era : 0 <= (if m <=? 2 then y - 1 else y) - era * 400 < 400 ->
  days_from_civil y m d = era * 146097 + dfc_era (y - era * 400) m d - 719468.
Proof.
  intros H. unfold days_from_civil, dfc_era. cbv zeta.
  destruct (m <=? 2) eqn:E.
  - assert ((y - 1) / 400 = era) as -> by lia. replace (y - era * 400 - 1) with (y - 1 - era * 400) by lia. lia.
  - assert (y / 400 = era) as -> by lia. lia.
Qed.

Lemma is_leap_periodic y k : is_leap (y + k * 400) = is_leap y.
Proof.
  unfold is_leap.
  assert ((y + k * 400) mod 4 = y mod 4) as -> by lia.
  assert ((y + k * 400) mod 100 = y mod 100) as -> by lia.
  assert ((y + k * 400) mod 400 = y mod 400) as -> by lia.
  reflexivity.
Qed.
Lemma dim_periodic y k m : dim (y + k * 400) m = dim y m.
Proof. unfold dim. rewrite is_leap_periodic. reflexivity. Qed.

(* unpacked facts about one day, for every z *)
Theorem civil_facts z :
  let '(y, m, d) := civil_from_days z in
  let era := (z + 719468) / 146097 in
  let doe := z + 719468 - era * 146097 in
  days_from_civil y m d = z /\ 1 <= m <= 12 /\ 1 <= d <= dim y m
  /\ era * 400 <= y <= era * 400 + 400 /\ (DOE_JAN1 <= doe <-> y = era * 400 + 400).
Proof.
  rewrite cfd_split. cbv zeta.
  set (era := (z + 719468) / 146097). set (doe := z + 719468 - era * 146097).
  assert (0 <= doe < 146097) as Hd by (unfold doe, era; lia).
  pose proof (era_all doe Hd) as C. unfold chk_era in C.
  destruct (cfd_era doe) as [[y0 m] d].
  repeat (apply andb_prop in C; destruct C as [C ?]).
  repeat match goal with H : (_ <=? _) = true |- _ => apply Z.leb_le in H end.
  match goal with H : (_ =? _) = true |- _ => apply Z.eqb_eq in H; rename H into Hdfc end.
  match goal with H : Bool.eqb _ _ = true |- _ => apply eqb_prop in H; rename H into Hjan end.
  split; [|split; [lia|split; [rewrite dim_periodic; lia|split]]].
  - rewrite (dfc_split _ _ _ era).
    + replace (y0 + era * 400 - era * 400) with y0 by lia. rewrite Hdfc. unfold doe. lia.
    + destruct (m <=? 2); lia.
  - destruct (m <=? 2); lia.
  - split; intros Hx.
    + assert ((DOE_JAN1 <=? doe) = true) as Hl by (apply Z.leb_le; exact Hx).
      rewrite Hl in Hjan. symmetry in Hjan. apply Z.eqb_eq in Hjan. lia.
    + assert ((y0 =? 400) = true) as Hl by (apply Z.eqb_eq; lia).
      rewrite Hl in Hjan. apply Z.leb_le in Hjan. exact Hjan.
Qed.

Theorem dfc_cfd z : let '(y, m, d) := civil_from_days z in
  days_from_civil y m d = z /\ 1 <= m <= 12 /\ 1 <= d <= dim y m.
Proof.
  pose proof (civil_facts z) as F. destruct (civil_from_days z) as [[y m] d]. cbv zeta in F. tauto.
Qed.

(* year in 0..9999  <->  day number in [-719528, 2932896] *)
Definition DAY_MIN : Z := -719528.
Definition DAY_MAX : Z := 2932896.
Theorem year_range_iff z : 0 <= year_of_days z <= 9999 <-> DAY_MIN <= z <= DAY_MAX.
Proof.
  unfold year_of_days, DAY_MIN, DAY_MAX. pose proof (civil_facts z) as F.
  destruct (civil_from_days z) as [[y m] d]. cbv zeta in F.
  destruct F as [_ [_ [_ [Hy Hj]]]]. unfold DOE_JAN1 in Hj.
  set (era := (z + 719468) / 146097) in *. set (doe := z + 719468 - era * 146097) in *.
  assert (0 <= doe < 146097) as Hd by (unfold doe, era; lia).
  assert (z = era * 146097 + doe - 719468) as Hz by (unfold doe; lia).
  split; intros H.
  - assert (-1 <= era <= 24) as He by lia.
    destruct (Z.eq_dec era (-1)) as [E1|N1]; [|destruct (Z.eq_dec era 24) as [E2|N2]].
    + assert (y = era * 400 + 400) as Hy4 by lia. apply Hj in Hy4. lia.
    + assert (~ y = era * 400 + 400) as Hn by lia. assert (~ 146037 <= doe) by tauto. lia.
    + lia.
  - assert (-1 <= era <= 24) as He by lia.
    destruct (Z.eq_dec era (-1)) as [E1|N1]; [|destruct (Z.eq_dec era 24) as [E2|N2]].
    + assert (146037 <= doe) as Hx by lia. apply Hj in Hx. lia.
    + assert (~ 146037 <= doe) as Hn by lia. assert (y <> era * 400 + 400) by tauto. lia.
    + lia.
Qed.
