From Coq Require Import List NArith ZArith Bool Lia.
From IdV Require Import Lib.Outcome Lib.Base64 Proofs.Base64Proofs Jose.Header Jose.Policy Proofs.PolicyProofs Jose.Jws.
Import ListNotations.
Open Scope N_scope.

Definition nodot (l : list N) : Prop := forallb (fun c => negb (c =? 46)) l = true.

Section JwsProofs.
  Variable H : Type.
  Variable hview : H -> hdr.
  Variable halg : H -> option Z.
  Variable parse_header : list N -> option H.
  Variable ser_header : H -> list N.
  Variable utf8 : list N -> bool.
  Variable V : Z -> list N -> list N -> bool.

  Notation decode_signature := (decode_signature H hview parse_header).
  Notation decode_compact := (decode_compact H hview parse_header).
  Notation decode_envelope := (decode_envelope H hview parse_header).
  Notation verify := (verify H halg V).
  Notation item := (item H).

  (* ---------- splitting at '.' ---------- *)
  Fixpoint join_dot (ss : list (list N)) : list N :=
    match ss with
    | [] => []
    | [s] => s
    | s :: r => s ++ 46 :: join_dot r
    end.

  Lemma split_dot_nonempty l : split_dot l <> [].
  Proof. induction l as [|c r IH]; cbn; [discriminate|]. destruct (c =? 46); [discriminate|]. destruct (split_dot r); [congruence|discriminate]. Qed.

  Lemma split_dot_join l : join_dot (split_dot l) = l /\ Forall nodot (split_dot l).
  Proof.
    induction l as [|c r [IHj IHf]]; cbn [split_dot].
    - split; [reflexivity|]. constructor; [reflexivity|constructor].
    - destruct (c =? 46) eqn:E.
      + apply N.eqb_eq in E. subst. split.
        * cbn [join_dot]. destruct (split_dot r) eqn:S; [exfalso; exact (split_dot_nonempty r S)|]. cbn [app]. f_equal. exact IHj.
        * constructor; [reflexivity|exact IHf].
      + destruct (split_dot r) as [|s ss] eqn:S; [exfalso; exact (split_dot_nonempty r S)|]. split.
        * destruct ss; cbn [join_dot] in *; cbn [app]; f_equal; exact IHj.
        * inversion IHf; subst. constructor; [|assumption]. unfold nodot in *. cbn [forallb]. rewrite E. cbn. assumption.
  Qed.

  Lemma split3 l p e s : split_dot l = [p; e; s] -> l = p ++ 46 :: e ++ 46 :: s /\ nodot p /\ nodot e /\ nodot s.
  Proof.
    intros S. destruct (split_dot_join l) as [J F]. rewrite S in J, F. cbn [join_dot] in J.
    inversion F as [|? ? Fp F1]; subst. inversion F1 as [|? ? Fe F2]; subst. inversion F2 as [|? ? Fs _]; subst. auto.
  Qed.

  (* the first '.' of a text is where it is: used for "the token is determined by what reaches the verifier" *)
  Lemma first_dot_unique p q p' q' : nodot p -> nodot p' -> p ++ 46 :: q = p' ++ 46 :: q' -> p = p' /\ q = q'.
  Proof.
    revert p'. induction p as [|c r IH]; intros [|c' r'] Np Np' E; cbn [app] in E.
    - injection E as Eq. auto.
    - injection E as Ec Er. subst c'. unfold nodot in Np'. cbn in Np'. discriminate.
    - injection E as Ec Er. subst c. unfold nodot in Np. cbn in Np. discriminate.
    - injection E as Ec Er. subst c'. unfold nodot in *. cbn [forallb] in Np, Np'.
      apply andb_prop in Np as [_ Np]. apply andb_prop in Np' as [_ Np'].
      destruct (IH r' Np Np' Er) as [A B]. subst. auto.
  Qed.

  (* ---------- decoder ---------- *)
  Lemma decode_signature_spec payload uh p sg it : decode_signature payload uh p sg = Ok it ->
    it_si H it = (match p with Some pb => pb | None => [] end) ++ [46] ++ payload
    /\ b64u_decode sg = Some (it_sig H it)
    /\ it_unprotected H it = uh
    /\ (match p with
        | None => it_protected H it = None
        | Some pb => exists js h, b64u_decode pb = Some js /\ parse_header js = Some h /\ it_protected H it = Some h
        end)
    /\ validate_jws_headers (oview H hview (it_protected H it)) (oview H hview uh) = true
    /\ (it_protected H it <> None \/ uh <> None)
    /\ (let b64 := match it_protected H it with Some h => match hb64 H hview h with Some b => b | None => true end | None => true end in
        if b64 then b64u_decode payload = Some (it_claims H it) else it_claims H it = payload).
  Proof.
    unfold Jws.decode_signature.
    set (ph_res := match p with None => Some None | Some pb => _ end).
    destruct ph_res as [ph|] eqn:Eph; [|discriminate].
    destruct (validate_jws_headers (oview H hview ph) (oview H hview uh)) eqn:Vh; cbn [negb]; [|discriminate].
    destruct (b64u_decode sg) as [dsig|] eqn:Ds; [|discriminate].
    set (b64 := match ph with Some h => match hb64 H hview h with Some b => b | None => true end | None => true end).
    destruct (if b64 then b64u_decode payload else Some payload) as [claims|] eqn:Dc; [|discriminate].
    assert (ph = None /\ uh = None \/ (ph <> None \/ uh <> None)) as [[-> ->]|Hne].
    { destruct ph, uh; try (right; left; discriminate); try (right; right; discriminate). left; auto. }
    { discriminate. }
    intros Hok.
    assert (it = {| it_protected := ph; it_unprotected := uh;
                    it_si := (match p with Some pb => pb | None => [] end) ++ [46] ++ payload;
                    it_sig := dsig; it_claims := claims |}) as ->.
    { destruct ph, uh; inversion Hok; try reflexivity; try (destruct Hne; congruence). }
    cbn [it_si it_sig it_unprotected it_protected it_claims]. repeat split; auto.
    - unfold ph_res in Eph. destruct p as [pb|]; [|inversion Eph; reflexivity].
      destruct (b64u_decode pb) as [js|]; [|discriminate]. destruct (parse_header js) as [h|] eqn:Ph; [|discriminate].
      inversion Eph; subst. eauto.
    - fold b64. destruct b64; [exact Dc|inversion Dc; reflexivity].
  Qed.

  Theorem compact_signing_input_exact tok det it : decode_compact tok det = Ok it ->
    exists P E S, tok = P ++ 46 :: E ++ 46 :: S /\ nodot P /\ nodot E /\ nodot S
      /\ (exists Q, expand_payload det (Some E) = Some Q /\ it_si H it = P ++ [46] ++ Q
            /\ (let b64 := match it_protected H it with Some h => match hb64 H hview h with Some b => b | None => true end | None => true end in
                if b64 then b64u_decode Q = Some (it_claims H it) else it_claims H it = Q))
      /\ b64u_decode S = Some (it_sig H it)
      /\ (exists js h, b64u_decode P = Some js /\ parse_header js = Some h /\ it_protected H it = Some h)
      /\ it_unprotected H it = None.
  Proof.
    unfold Jws.decode_compact. destruct (split_dot tok) as [|p [|e [|s [|x r]]]] eqn:S; try discriminate.
    destruct (expand_payload det (Some e)) as [payload|] eqn:Ex; [|discriminate].
    intros D. destruct (split3 _ _ _ _ S) as [Et [Np [Ne Ns]]].
    destruct (decode_signature_spec _ _ _ _ _ D) as [A [B [C [Dd [_ [_ G]]]]]].
    exists p, e, s. repeat split; auto. exists payload. repeat split; auto.
  Qed.

  (* exactly one payload source *)
  Theorem payload_xor det parsed q : expand_payload det parsed = Some q ->
    (det = Some q /\ (parsed = None \/ parsed = Some [])) \/ (det = None /\ parsed = Some q /\ q <> []).
  Proof.
    unfold expand_payload, nonempty. destruct det as [d|], parsed as [[|c r]|]; intros E; inversion E; subst; auto.
    right. repeat split; auto. discriminate.
  Qed.

  (* two accepted compact tokens (same detached payload) that hand the verifier the same signing input
     and the same signature bytes are the same token *)
  Theorem compact_token_determined tok tok' det it it' :
    decode_compact tok det = Ok it -> decode_compact tok' det = Ok it' ->
    it_si H it = it_si H it' -> it_sig H it = it_sig H it' -> tok = tok'.
  Proof.
    intros D D' Esi Esg.
    destruct (compact_signing_input_exact _ _ _ D) as [P [E [S [Et [Np [Ne [Ns [[Q [Ex [Si _]]] [Sg _]]]]]]]]].
    destruct (compact_signing_input_exact _ _ _ D') as [P' [E' [S' [Et' [Np' [Ne' [Ns' [[Q' [Ex' [Si' _]]] [Sg' _]]]]]]]]].
    rewrite Si, Si' in Esi. cbn [app] in Esi.
    destruct (first_dot_unique _ _ _ _ Np Np' Esi) as [EP EQ]. subst P' Q'.
    rewrite Esg in Sg. pose proof (b64u_decode_inj _ _ _ Sg Sg') as ES. subst S'.
    assert (E = E') as ->; [|congruence].
    destruct (payload_xor _ _ _ Ex) as [[Dd [X|X]]|[Dd [X Y]]]; destruct (payload_xor _ _ _ Ex') as [[Dd' [X'|X']]|[Dd' [X' Y']]]; try congruence.
  Qed.

  Theorem envelope_signing_input_exact e det it : decode_envelope e det = Ok it ->
    exists Q, expand_payload det (e_payload H e) = Some Q
      /\ it_si H it = (match e_protected H e with Some pb => pb | None => [] end) ++ [46] ++ Q
      /\ b64u_decode (e_signature H e) = Some (it_sig H it)
      /\ it_unprotected H it = e_header H e
      /\ (let b64 := match it_protected H it with Some h => match hb64 H hview h with Some b => b | None => true end | None => true end in
          if b64 then b64u_decode Q = Some (it_claims H it) else it_claims H it = Q).
  Proof.
    unfold Jws.decode_envelope. destruct (expand_payload det (e_payload H e)) as [payload|] eqn:Ex; [|discriminate].
    intros D. destruct (decode_signature_spec _ _ _ _ _ D) as [A [B [C [_ [_ [_ G]]]]]].
    exists payload. repeat split; auto.
  Qed.

  Theorem decode_enforces_policy payload uh p sg it : decode_signature payload uh p sg = Ok it ->
    policy_ok (oview H hview (it_protected H it)) (oview H hview uh).
  Proof. intros D. apply validate_iff_policy. apply (decode_signature_spec _ _ _ _ _ D). Qed.

  (* verification: protected header, its alg, the key's pinned alg, and the verifier's answer *)
  Theorem verify_sound it kalg d : verify it kalg = Ok d ->
    d = it /\ exists h a, it_protected H it = Some h /\ halg h = Some a
      /\ (kalg = None \/ kalg = Some a) /\ V a (it_si H it) (it_sig H it) = true.
  Proof.
    unfold Jws.verify. destruct (it_protected H it) as [h|] eqn:Ep; [|discriminate].
    destruct (halg h) as [a|] eqn:Ea; [|discriminate].
    destruct (match kalg with Some k => (k =? a)%Z | None => true end) eqn:K; cbn [negb]; [|discriminate].
    destruct (V a (it_si H it) (it_sig H it)) eqn:Vv; [|discriminate].
    intros X; inversion X; subst d. split; [reflexivity|]. exists h, a.
    split; [reflexivity|]. split; [exact Ea|]. split; [|exact Vv].
    destruct kalg as [k|]; [right; apply Z.eqb_eq in K; congruence|left; reflexivity].
  Qed.
  Theorem verify_complete it kalg h a : it_protected H it = Some h -> halg h = Some a ->
    (kalg = None \/ kalg = Some a) -> V a (it_si H it) (it_sig H it) = true -> verify it kalg = Ok it.
  Proof.
    intros Hp Ha Hk Hv. unfold Jws.verify. rewrite Hp, Ha.
    replace (match kalg with Some k => (k =? a)%Z | None => true end) with true
      by (destruct Hk as [->| ->]; [reflexivity|symmetry; apply Z.eqb_refl]).
    cbn [negb]. rewrite Hv. reflexivity.
  Qed.
  (* the unprotected header plays no part in verification *)
  Theorem verify_ignores_unprotected it u kalg :
    let it' := {| it_protected := it_protected H it; it_unprotected := u; it_si := it_si H it; it_sig := it_sig H it; it_claims := it_claims H it |} in
    (exists d, verify it kalg = Ok d) <-> (exists d, verify it' kalg = Ok d).
  Proof.
    cbv zeta. unfold Jws.verify. cbn [it_protected it_si it_sig].
    destruct (it_protected H it) as [h|]; [|split; intros [d X]; discriminate].
    destruct (halg h) as [a|]; [|split; intros [d X]; discriminate].
    destruct (negb _); [split; intros [d X]; discriminate|].
    destruct (V a (it_si H it) (it_sig H it)); split; intros [d X]; try discriminate; eauto.
  Qed.

  (* single-bit (indeed any) change of an accepted compact token: if the scheme has no second valid
     (message, signature) pair for this key, the changed token cannot verify *)
  Theorem bitflip_fails tok tok' det it it' kalg a :
    decode_compact tok det = Ok it -> verify it kalg = Ok it ->
    (forall m s, V a m s = true -> m = it_si H it /\ s = it_sig H it) ->   (* scheme hypothesis: unique valid pair *)
    (forall h, it_protected H it' = Some h -> halg h = Some a) ->          (* same algorithm named *)
    tok' <> tok -> decode_compact tok' det = Ok it' -> verify it' kalg = Err JErr.
  Proof.
    intros D Vf Uniq Alg Ne D'. destruct (verify it' kalg) as [d|e|] eqn:Vf'; [|destruct e; reflexivity|].
    - exfalso. destruct (verify_sound _ _ _ Vf') as [_ [h [a' [Hp [Ha [_ Hv]]]]]].
      rewrite (Alg h Hp) in Ha. inversion Ha; subst a'. destruct (Uniq _ _ Hv) as [A B].
      apply Ne. symmetry. eapply compact_token_determined; eauto.
    - unfold Jws.verify in Vf'. destruct (it_protected H it'); [|discriminate]. destruct (halg h); [|discriminate].
      destruct (negb _); [discriminate|]. destruct (V _ _ _); discriminate.
  Qed.

  (* ---------- encoders ---------- *)
  Hypothesis parse_ser : forall h, parse_header (ser_header h) = Some h.
  Hypothesis ser_bytes : forall h, Forall byte_ok (ser_header h).

  Lemma nodot_b64 bs : Forall byte_ok bs -> nodot (b64u_encode bs).
  Proof.
    intros F. pose proof (b64u_encode_charset _ F) as C. unfold nodot.
    induction (b64u_encode bs) as [|c r IH]; [reflexivity|]. cbn in *. apply andb_prop in C as [C1 C2].
    rewrite (IH C2), andb_true_r. apply negb_true_iff. apply N.eqb_neq. apply b64u_char_not_dot. exact C1.
  Qed.
  Lemma nodot_charset cs l : charset_ok cs l = true -> nodot l.
  Proof.
    unfold charset_ok, nodot. induction l as [|c r IH]; [reflexivity|]. cbn. intros X.
    apply andb_prop in X as [X1 X2]. apply andb_prop in X1 as [X1 _]. rewrite X1, (IH X2). reflexivity.
  Qed.
  Lemma split_dot_nodot l : nodot l -> split_dot l = [l].
  Proof.
    unfold nodot. induction l as [|c r IH]; [reflexivity|]. cbn. intros X. apply andb_prop in X as [X1 X2].
    apply negb_true_iff in X1. rewrite X1, (IH X2). reflexivity.
  Qed.
  Lemma split_dot_app p r : nodot p -> split_dot (p ++ 46 :: r) = p :: split_dot r.
  Proof.
    unfold nodot. induction p as [|c q IH]; cbn [app split_dot forallb]; intros X.
    - rewrite N.eqb_refl. reflexivity.
    - apply andb_prop in X as [X1 X2]. apply negb_true_iff in X1. rewrite X1, (IH X2). reflexivity.
  Qed.

  Lemma split_dot_cons_dot r : split_dot (46 :: r) = [] :: split_dot r.
  Proof. reflexivity. Qed.

  Theorem compact_roundtrip payload h nd e sg :
    Forall byte_ok payload -> Forall byte_ok sg -> payload <> [] ->
    enc_compact_new H hview ser_header payload h nd = Ok e ->
    let tok := compact_into_jws e sg in
    let det := match nd with None => Some (encode_if_b64 H hview payload (Some h)) | Some _ => None end in
    exists it, decode_compact tok det = Ok it
      /\ it_protected H it = Some h /\ it_unprotected H it = None
      /\ it_si H it = ce_si e /\ it_sig H it = sg /\ it_claims H it = payload.
  Proof.
    intros Fp Fs Pne En. cbv zeta.
    unfold enc_compact_new in En.
    destruct (validate_jws_headers (Some (hview h)) None) eqn:Vh; cbn [negb] in En; [|discriminate].
    set (ph := b64u_encode (ser_header h)) in *.
    set (me := encode_if_b64 H hview payload (Some h)) in *.
    assert (nodot ph) as Nph by (apply nodot_b64; apply ser_bytes).
    assert (nodot (b64u_encode sg)) as Nsg by (apply nodot_b64; exact Fs).
    assert (me <> []) as Mne.
    { unfold me, encode_if_b64. destruct (extract_b64 _); [|exact Pne].
      destruct payload as [|a [|b [|c r]]]; [congruence| | |]; cbn; discriminate. }
    (* what the decoder does with protected = ph, payload = me, signature = b64(sg) *)
    assert (decode_signature me None (Some ph) (b64u_encode sg) =
            Ok {| it_protected := Some h; it_unprotected := None; it_si := ph ++ [46] ++ me; it_sig := sg; it_claims := payload |}) as Dsig.
    { unfold Jws.decode_signature. unfold ph at 1. rewrite (b64u_decode_encode _ (ser_bytes h)), parse_ser.
      cbn [oview]. rewrite Vh. cbn [negb]. rewrite (b64u_decode_encode _ Fs).
      unfold me, encode_if_b64, extract_b64, oview, hb64.
      destruct (h_b64 (hview h)) as [[|]|]; try rewrite (b64u_decode_encode _ Fp); reflexivity. }
    destruct nd as [cs|].
    - (* attached *)
      assert (exists pp, ce_payload e = Some pp /\ nodot pp /\ pp = me /\ ce_protected e = ph /\ ce_si e = ph ++ [46] ++ me) as [pp [Ep [Npp [Epp [Eph Esi]]]]].
      { destruct (extract_b64 (Some (hview h))) eqn:B.
        - inversion En; subst; cbn. exists me. repeat split; auto. unfold me, encode_if_b64. cbn [oview]. rewrite B. apply nodot_b64. exact Fp.
        - destruct (charset_ok cs payload) eqn:C; [|discriminate]. inversion En; subst; cbn.
          exists payload. assert (me = payload) as Em by (unfold me, encode_if_b64; cbn [oview]; rewrite B; reflexivity).
          repeat split; auto; try congruence. eapply nodot_charset; eauto. }
      unfold compact_into_jws. rewrite Ep, Eph. unfold Jws.decode_compact. cbn [app].
      rewrite (split_dot_app _ _ Nph). rewrite (split_dot_app _ _ Npp). rewrite (split_dot_nodot _ Nsg).
      subst pp. unfold expand_payload, nonempty. destruct me as [|m0 mr] eqn:Em; [congruence|].
      rewrite Dsig. eexists; split; [reflexivity|]. cbn. repeat split; auto.
    - (* detached *)
      inversion En; subst; cbn. unfold compact_into_jws. cbn [ce_payload ce_protected]. unfold Jws.decode_compact. cbn [app].
      rewrite (split_dot_app _ _ Nph). rewrite split_dot_cons_dot. rewrite (split_dot_nodot _ Nsg).
      unfold expand_payload, nonempty. rewrite Dsig. eexists; split; [reflexivity|]. cbn. repeat split; auto.
  Qed.

  (* JwkDocumentExt::create_jws: whatever the signature options, the header it assembles is accepted by the compact encoder -
     the only refusal left is the character-set test on an attached unencoded payload - and the token decodes to that
     header, the payload and the signing input that was signed *)
  Theorem create_jws_roundtrip o h payload sg :
    hview h = create_jws_header o -> Forall byte_ok payload -> Forall byte_ok sg -> payload <> [] ->
    let nd := if so_detached o then None else Some 0 in
    (so_detached o = false -> so_b64 o = Some false -> charset_ok 0 payload = true) ->
    exists e, enc_compact_new H hview ser_header payload h nd = Ok e /\
      let tok := compact_into_jws e sg in
      let det := match nd with None => Some (encode_if_b64 H hview payload (Some h)) | Some _ => None end in
      exists it, decode_compact tok det = Ok it
        /\ it_protected H it = Some h /\ it_unprotected H it = None
        /\ it_si H it = ce_si e /\ it_sig H it = sg /\ it_claims H it = payload.
  Proof.
    intros Hv Fp Fs Pne nd Hc.
    assert (En : exists e, enc_compact_new H hview ser_header payload h nd = Ok e).
    { unfold enc_compact_new. pose proof (create_jws_header_valid o) as Vh. unfold enc_compact in Vh. rewrite Hv, Vh. cbn [negb].
      unfold nd. destruct (so_detached o) eqn:D; [eexists; reflexivity|]. rewrite (create_jws_header_b64 o).
      destruct (so_b64 o) as [[|]|] eqn:B; try (eexists; reflexivity). rewrite (Hc eq_refl eq_refl). eexists; reflexivity. }
    destruct En as [e En]. exists e. split; [exact En|]. apply (compact_roundtrip payload h nd e sg Fp Fs Pne En).
  Qed.

  Theorem flattened_roundtrip payload p u detached e sg :
    Forall byte_ok payload -> Forall byte_ok sg -> payload <> [] ->
    enc_flattened_new H hview ser_header utf8 payload p u detached = Ok e ->
    let det := if detached then Some (encode_if_b64 H hview payload p) else None in
    exists it, decode_envelope (json_envelope H e sg) det = Ok it
      /\ it_protected H it = p /\ it_unprotected H it = u
      /\ it_si H it = je_si H e /\ it_sig H it = sg /\ it_claims H it = payload.
  Proof.
    intros Fp Fs Pne En. cbv zeta. unfold enc_flattened_new in En.
    destruct (enc_json (oview H hview p) (oview H hview u)) eqn:Vj; cbn [negb] in En; [|discriminate].
    apply andb_prop in Vj as [Some_hdr Vh].
    set (me := encode_if_b64 H hview payload p) in *.
    set (ph := match p with Some h => Some (b64u_encode (ser_header h)) | None => None end) in *.
    assert (me <> []) as Mne.
    { unfold me, encode_if_b64. destruct (extract_b64 _); [|exact Pne].
      destruct payload as [|a [|b [|c r]]]; [congruence| | |]; cbn; discriminate. }
    assert (decode_signature me u ph (b64u_encode sg) =
            Ok {| it_protected := p; it_unprotected := u; it_si := (match ph with Some x => x | None => [] end) ++ [46] ++ me; it_sig := sg; it_claims := payload |}) as Dsig.
    { unfold Jws.decode_signature. unfold ph.
      assert ((match (match p with Some h => Some (b64u_encode (ser_header h)) | None => None end) with
               | None => Some None
               | Some pb => match b64u_decode pb with Some js => match parse_header js with Some h => Some (Some h) | None => None end | None => None end
               end) = Some p) as ->.
      { destruct p as [h|]; [|reflexivity]. rewrite (b64u_decode_encode _ (ser_bytes h)), parse_ser. reflexivity. }
      rewrite Vh. cbn [negb]. rewrite (b64u_decode_encode _ Fs).
      assert ((if match p with Some h => match hb64 H hview h with Some b => b | None => true end | None => true end
               then b64u_decode me else Some me) = Some payload) as ->.
      { unfold me, encode_if_b64, extract_b64, oview, hb64. destruct p as [h|]; [destruct (h_b64 (hview h)) as [[|]|]|];
          try rewrite (b64u_decode_encode _ Fp); reflexivity. }
      unfold some_header in Some_hdr. destruct p, u; try reflexivity. discriminate. }
    assert (exists pl, e = {| je_payload := pl; je_protected := ph; je_header := u; je_si := (match ph with Some x => x | None => [] end) ++ [46] ++ me |}
                       /\ expand_payload (if detached then Some me else None) pl = Some me) as [pl [-> Ex]].
    { destruct detached.
      - inversion En; subst. eexists; split; [reflexivity|]. reflexivity.
      - destruct (extract_b64 (oview H hview p)) eqn:B.
        + inversion En; subst. eexists; split; [reflexivity|]. unfold expand_payload, nonempty. destruct me; [congruence|reflexivity].
        + destruct (utf8 payload); [|discriminate]. inversion En; subst. eexists; split; [reflexivity|].
          assert (me = payload) as Em by (unfold me, encode_if_b64; rewrite B; reflexivity).
          unfold expand_payload, nonempty. rewrite <- Em. destruct me; [congruence|reflexivity]. }
    unfold Jws.decode_envelope, json_envelope. cbn [e_payload e_protected e_header e_signature je_payload je_protected je_header je_si].
    rewrite Ex, Dsig. eexists; split; [reflexivity|]. cbn. repeat split; auto.
  Qed.
  (* ---------- general serialisation: every recipient's entry decodes to what that recipient signed ---------- *)
  Lemma decode_signature_encoded payload p0 p u sg :
    Forall byte_ok payload -> Forall byte_ok sg ->
    enc_json (oview H hview p) (oview H hview u) = true ->
    extract_b64 (oview H hview p) = extract_b64 (oview H hview p0) ->
    decode_signature (encode_if_b64 H hview payload p0) u
      (match p with Some h => Some (b64u_encode (ser_header h)) | None => None end) (b64u_encode sg)
    = Ok {| it_protected := p; it_unprotected := u; it_si := general_si H hview ser_header payload p0 p; it_sig := sg; it_claims := payload |}.
  Proof.
    intros Fp Fs Vj Eb. apply andb_prop in Vj as [Some_hdr Vh].
    unfold Jws.decode_signature.
    assert ((match (match p with Some h => Some (b64u_encode (ser_header h)) | None => None end) with
             | None => Some None
             | Some pb => match b64u_decode pb with Some js => match parse_header js with Some h => Some (Some h) | None => None end | None => None end
             end) = Some p) as ->.
    { destruct p as [h|]; [|reflexivity]. rewrite (b64u_decode_encode _ (ser_bytes h)), parse_ser. reflexivity. }
    rewrite Vh. cbn [negb]. rewrite (b64u_decode_encode _ Fs).
    assert ((if match p with Some h => match hb64 H hview h with Some b => b | None => true end | None => true end
             then b64u_decode (encode_if_b64 H hview payload p0) else Some (encode_if_b64 H hview payload p0)) = Some payload) as ->.
    { unfold encode_if_b64. rewrite <- Eb. unfold extract_b64, oview, hb64. destruct p as [h|]; [destruct (h_b64 (hview h)) as [[|]|]|];
        try rewrite (b64u_decode_encode _ Fp); reflexivity. }
    unfold general_si.
    unfold some_header in Some_hdr. destruct p, u; try reflexivity. discriminate.
  Qed.

  Definition env_of (r : option H * option H * list N) : envelope H :=
    let '(p, u, sg) := r in
    {| e_payload := None; e_protected := match p with Some h => Some (b64u_encode (ser_header h)) | None => None end;
       e_header := u; e_signature := b64u_encode sg |}.

  Lemma enc_general_ok payload rs detached top envs :
    enc_general H hview ser_header utf8 payload rs detached = Ok (top, envs) ->
    exists p0 u0 s0 rest, rs = (p0, u0, s0) :: rest
      /\ forallb (fun r => let '(p, u, _) := r in enc_add_recipient (extract_b64 (oview H hview p0)) (oview H hview p) (oview H hview u)) rs = true
      /\ top = (if detached then None else Some (encode_if_b64 H hview payload p0))
      /\ envs = map env_of rs.
  Proof.
    unfold enc_general. destruct rs as [|[[p0 u0] s0] rest]; [discriminate|].
    destruct (forallb _ ((p0, u0, s0) :: rest)) eqn:All; cbn [negb]; [|discriminate].
    destruct (negb detached && negb (extract_b64 (oview H hview p0) || utf8 payload)); [discriminate|].
    intros En. inversion En. exists p0, u0, s0, rest. repeat split; auto.
  Qed.

  Theorem general_roundtrip payload rs detached top envs :
    Forall byte_ok payload -> payload <> [] ->
    enc_general H hview ser_header utf8 payload rs detached = Ok (top, envs) ->
    exists p0 u0 s0 rest, rs = (p0, u0, s0) :: rest /\ length envs = length rs
      /\ top = (if detached then None else Some (encode_if_b64 H hview payload p0))
      /\ forall k p u sg, nth_error rs k = Some (p, u, sg) -> Forall byte_ok sg ->
         exists env, nth_error envs k = Some env /\ e_payload H env = None /\
           let env' := {| e_payload := top; e_protected := e_protected H env; e_header := e_header H env; e_signature := e_signature H env |} in
           let det := if detached then Some (encode_if_b64 H hview payload p0) else None in
           exists it, decode_envelope env' det = Ok it
             /\ it_protected H it = p /\ it_unprotected H it = u
             /\ it_si H it = general_si H hview ser_header payload p0 p /\ it_sig H it = sg /\ it_claims H it = payload.
  Proof.
    intros Fp Pne En. destruct (enc_general_ok _ _ _ _ _ En) as [p0 [u0 [s0 [rest [Ers [All [Et Ee]]]]]]].
    exists p0, u0, s0, rest. split; [exact Ers|]. split; [rewrite Ee; apply map_length|]. split; [exact Et|].
    intros k p u sg Hk Fs.
    assert (In (p, u, sg) rs) as Hin by (eapply nth_error_In; exact Hk).
    rewrite forallb_forall in All. pose proof (All _ Hin) as A. cbn beta iota in A.
    unfold enc_add_recipient in A. apply andb_prop in A as [Eb Vj]. apply Bool.eqb_prop in Eb.
    exists (env_of (p, u, sg)). split; [rewrite Ee, nth_error_map, Hk; reflexivity|]. split; [reflexivity|]. cbv zeta.
    cbn [env_of e_payload e_protected e_header e_signature]. rewrite Et.
    set (me := encode_if_b64 H hview payload p0).
    assert (me <> []) as Mne.
    { unfold me, encode_if_b64. destruct (extract_b64 _); [|exact Pne].
      destruct payload as [|a [|b [|c r]]]; [congruence| | |]; cbn; discriminate. }
    unfold Jws.decode_envelope. cbn [e_payload e_protected e_header e_signature].
    assert (expand_payload (if detached then Some me else None) (if detached then None else Some me) = Some me) as ->.
    { destruct detached; [reflexivity|]. unfold expand_payload, nonempty. destruct me; [congruence|reflexivity]. }
    unfold me. rewrite (decode_signature_encoded payload p0 p u sg Fp Fs Vj Eb).
    eexists; split; [reflexivity|]. cbn. repeat split; reflexivity.
  Qed.

  (* ---------- general decode: the items handed out agree on b64 ---------- *)
  Lemma decode_signature_protected payload uh p sg it :
    decode_signature payload uh p sg = Ok it -> decode_protected H parse_header p = Some (it_protected H it).
  Proof.
    unfold Jws.decode_signature, decode_protected. intros Hd.
    destruct p as [pb|].
    - destruct (b64u_decode pb) as [js|]; [|discriminate]. destruct (parse_header js) as [h|]; [|discriminate].
      repeat match type of Hd with
             | context [if ?b then _ else _] => destruct b; try discriminate
             | context [match ?x with _ => _ end] => destruct x; try discriminate
             end; inversion Hd; reflexivity.
    - repeat match type of Hd with
             | context [if ?b then _ else _] => destruct b; try discriminate
             | context [match ?x with _ => _ end] => destruct x; try discriminate
             end; inversion Hd; reflexivity.
  Qed.
  Lemma all_same_spec l : all_same l = true -> forall a b, In a l -> In b l -> a = b.
  Proof.
    destruct l as [|b0 r]; [intros _ a b []|]. cbn [all_same]. intros Hall.
    assert (forall a, In a (b0 :: r) -> a = b0) as A.
    { intros a [<-|Ha]; [reflexivity|]. rewrite forallb_forall in Hall. symmetry. apply Bool.eqb_prop. exact (Hall a Ha). }
    intros a b Ha Hb. rewrite (A a Ha), (A b Hb). reflexivity.
  Qed.
  Theorem general_decode_items_agree pl es det items :
    decode_general H hview parse_header pl es det = Ok items ->
    length items = length es /\
    forall it1 it2, In (Ok it1) items -> In (Ok it2) items ->
      extract_b64 (oview H hview (it_protected H it1)) = extract_b64 (oview H hview (it_protected H it2)).
  Proof.
    unfold decode_general. destruct (expand_payload det pl) as [payload|]; [|discriminate].
    destruct (all_same (general_b64_values H hview parse_header es)) eqn:A; cbn [negb]; [|discriminate].
    intros Hi. inversion Hi; subst items; clear Hi. split; [apply map_length|].
    assert (forall it, In (Ok it) (map (fun e => decode_signature payload (e_header H e) (e_protected H e) (e_signature H e)) es) ->
            In (extract_b64 (oview H hview (it_protected H it))) (general_b64_values H hview parse_header es)) as VV.
    { intros it Hin. apply in_map_iff in Hin as [e [He Hes]]. unfold general_b64_values. apply in_flat_map. exists e. split; [exact Hes|].
      rewrite (decode_signature_protected _ _ _ _ _ He). left. reflexivity. }
    intros it1 it2 H1 H2. exact (all_same_spec _ A _ _ (VV it1 H1) (VV it2 H2)).
  Qed.
End JwsProofs.
