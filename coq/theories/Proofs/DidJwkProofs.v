From Coq Require Import List NArith Bool.
From IdV Require Import Lib.Outcome Did.DidParse Did.DidJwk.
Import ListNotations.
Open Scope N_scope.

Section P.
Variable J : Type.
Variable dj : list N -> option J.
Lemma try_from_core_ok c v : didjwk_try_from_core J dj c = Ok v -> v = c /\ fst v = JWK_METHOD /\ exists j, dj (snd v) = Some j.
Proof. unfold didjwk_try_from_core. destruct (list_eqb (fst c) JWK_METHOD) eqn:E; cbn [negb]; [|discriminate]. destruct (dj (snd c)) as [j|] eqn:D; [|discriminate].
  intros H. injection H as <-. split; [reflexivity|]. split; [|exists j; exact D]. clear D. revert E. generalize (fst c) JWK_METHOD. clear.
  induction l as [|x l IH]; intros [|y m]; cbn [list_eqb]; try discriminate; [reflexivity|]. intros H. apply andb_true_iff in H. destruct H as [H1 H2]. apply N.eqb_eq in H1. subst. f_equal. apply IH. exact H2. Qed.
(* every construction route hands out only values whose jwk() succeeds *)
Theorem didjwk_accessor_never_panics s v : (didjwk_parse J dj s = Ok v \/ didjwk_serde J dj s = Ok v) -> didjwk_jwk J dj v <> Panic.
Proof. unfold didjwk_parse, didjwk_serde, didjwk_jwk. intros [H|H].
  - destruct (core_did_parse s) as [c|e|]; cbn [obind] in H; try discriminate. destruct (try_from_core_ok _ _ H) as [_ [_ [j ->]]]. discriminate.
  - destruct (core_did_parse s) as [c|e|]; cbn [obind] in H; try discriminate. destruct (try_from_core_ok _ _ H) as [_ [_ [j ->]]]. discriminate. Qed.
Theorem didjwk_routes_validate s v : (didjwk_parse J dj s = Ok v \/ didjwk_serde J dj s = Ok v) -> fst v = JWK_METHOD /\ exists j, dj (snd v) = Some j /\ didjwk_jwk J dj v = Ok j.
Proof. unfold didjwk_parse, didjwk_serde, didjwk_jwk. intros [H|H].
  - destruct (core_did_parse s) as [c|e|]; cbn [obind] in H; try discriminate. destruct (try_from_core_ok _ _ H) as [_ [M [j D]]]. split; [exact M|]. exists j. rewrite D. split; reflexivity.
  - destruct (core_did_parse s) as [c|e|]; cbn [obind] in H; try discriminate. destruct (try_from_core_ok _ _ H) as [_ [M [j D]]]. split; [exact M|]. exists j. rewrite D. split; reflexivity. Qed.
End P.
(* a deserialiser that skips TryFrom<CoreDID> hands out a value whose accessor panics (what a `#[serde(transparent)]` would do) *)
Theorem didjwk_transparent_serde_panics : exists s v, didjwk_serde_transparent s = Ok v /\ didjwk_jwk unit (fun _ => None) v = Panic.
Proof. exists [100; 105; 100; 58; 106; 119; 107; 58; 97]. eexists. split; [vm_compute; reflexivity|reflexivity]. Qed.
