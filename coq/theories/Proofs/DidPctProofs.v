(* C10 at full strength: the URL-level statements WITHOUT the percent-free hypothesis.  Possible since the repository reads DID and DID-URL
   texts itself (fixes 6c07746, 9f8c9e7): well-formedness is stated with valid_seg / valid_method_id (class characters and well-formed
   percent-encoded triples), which is exactly what the parser and the setters check. *)
From Coq Require Import List NArith Bool Lia.
From IdV Require Import Lib.Outcome Did.DidParse Proofs.DidProofs Proofs.DidUrlProofs Proofs.DidCompleteProofs Proofs.DidTotalProofs Proofs.DidSplitProofs.
Import ListNotations.
Open Scope N_scope.

Definition wfp_url (u : did_url) : Prop :=
  u_did u = [100; 105; 100; 58] ++ u_method u ++ [58] ++ u_mid u
  /\ u_method u <> [] /\ valid_method_name (u_method u) = true
  /\ u_mid u <> [] /\ valid_method_id (u_mid u) = true
  /\ (forall p, u_path u = Some p -> exists t, p = 47 :: t /\ valid_seg char_path p = true)
  /\ (forall q, u_query u = Some q -> exists t, q = 63 :: t /\ t <> [] /\ valid_seg char_query t = true)
  /\ (forall f, u_frag u = Some f -> exists t, f = 35 :: t /\ t <> [] /\ valid_seg char_query t = true).

(* a delimiter that is neither in the class, nor '%', nor a hex digit does not occur in a valid segment *)
Lemma valid_seg_notin ok c : ok c = false -> c <> 37 -> is_hexdig c = false -> forall n l, (length l <= n)%nat -> valid_seg ok l = true -> ~ In c l.
Proof. intros Hok H37 Hhex. induction n as [|n IH]; intros l L V Hi.
  - destruct l; [destruct Hi|cbn in L; lia].
  - destruct l as [|x r]; [destruct Hi|]. cbn [valid_seg] in V. destruct (x =? 37) eqn:E.
    + apply N.eqb_eq in E. subst x. destruct r as [|h1 [|h2 r2]]; try discriminate. apply andb_prop in V as [V V3]. apply andb_prop in V as [V1 V2].
      destruct Hi as [Hi|[Hi|[Hi|Hi]]]; [congruence|subst h1; congruence|subst h2; congruence|]. apply (IH r2); [cbn [length] in L; lia|exact V3|exact Hi].
    + apply andb_prop in V as [V1 V2]. destruct Hi as [Hi|Hi]; [subst x; congruence|]. apply (IH r); [cbn [length] in L; lia|exact V2|exact Hi].
Qed.
Lemma valid_seg_app_plain ok a b : ok 37 = false -> forallb ok a = true -> valid_seg ok (a ++ b) = valid_seg ok b.
Proof. intros H37. induction a as [|x a IH]; [reflexivity|]. cbn [forallb app valid_seg]. intros H. apply andb_prop in H as [Hx Ha].
  destruct (x =? 37) eqn:E; [apply N.eqb_eq in E; subst x; congruence|]. rewrite Hx, (IH Ha). reflexivity. Qed.

Section Reparse.
  Variable m i : list N.
  Hypothesis Nm : m <> [].
  Hypothesis Vm : valid_method_name m = true.
  Hypothesis Ni : i <> [].
  Hypothesis Vi : valid_method_id i = true.
  Let did := [100; 105; 100; 58] ++ m ++ [58] ++ i.
  Lemma did_valid_seg : valid_seg char_method_id did = true.
  Proof. unfold did. rewrite (valid_seg_app_plain char_method_id [100; 105; 100; 58]); [|reflexivity|reflexivity].
    rewrite valid_seg_app_plain; [|reflexivity|exact (forallb_imp _ _ _ char_method_mid Vm)].
    rewrite (valid_seg_app_plain char_method_id [58]); [|reflexivity|reflexivity]. rewrite <- (valid_mid_seg _ _ (le_n _)). exact Vi. Qed.
  Lemma did_notin c : char_method_id c = false -> c <> 37 -> is_hexdig c = false -> ~ In c did.
  Proof. intros A B C. exact (valid_seg_notin char_method_id c A B C _ did (le_n _) did_valid_seg). Qed.

  Theorem split_complete_pct p oq of :
    (p = [] \/ exists t, p = 47 :: t /\ valid_seg char_path p = true) ->
    (forall q, oq = Some q -> q <> [] /\ valid_seg char_query q = true) ->
    (forall f, of = Some f -> f <> [] /\ valid_seg char_query f = true) ->
    did_url_split_parse (did ++ p ++ optpre 63 oq ++ optpre 35 of)
    = Ok {| u_did := did; u_method := m; u_mid := i; u_path := opt_nonempty p; u_query := option_map (cons 63) oq; u_frag := option_map (cons 35) of |}.
  Proof.
    intros Wp Wq Wf.
    assert (Vp : valid_seg char_path p = true) by (destruct Wp as [->|[t [_ V]]]; [reflexivity|exact V]).
    assert (Np : forall c, char_path c = false -> c <> 37 -> is_hexdig c = false -> ~ In c (did ++ p)).
    { intros c A B C Hc. apply in_app_or in Hc as [Hc|Hc].
      - revert Hc. apply did_notin; auto. destruct (char_method_id c) eqn:X; [rewrite (char_mid_path _ X) in A; discriminate|reflexivity].
      - exact (valid_seg_notin char_path c A B C _ p (le_n _) Vp Hc). }
    assert (N35dp : ~ In 35 (did ++ p)) by (apply Np; [reflexivity|discriminate|reflexivity]).
    assert (N63dp : ~ In 63 (did ++ p)) by (apply Np; [reflexivity|discriminate|reflexivity]).
    assert (N35q : forall q, oq = Some q -> ~ In 35 q).
    { intros q Hq. destruct (Wq q Hq) as [_ V]. apply (valid_seg_notin char_query 35) with (n := length q); [reflexivity|discriminate|reflexivity|apply le_n|exact V]. }
    assert (N47d : ~ In 47 did) by (apply did_notin; [reflexivity|discriminate|reflexivity]).
    unfold did_url_split_parse. cbv zeta.
    replace (did ++ p ++ optpre 63 oq ++ optpre 35 of) with ((did ++ p) ++ optpre 63 oq ++ optpre 35 of) by (rewrite <- app_assoc; reflexivity).
    assert (S1 : (match split_once 35 ((did ++ p) ++ optpre 63 oq ++ optpre 35 of) with Some (r, f) => (r, Some f) | None => ((did ++ p) ++ optpre 63 oq ++ optpre 35 of, None) end)
                 = ((did ++ p) ++ optpre 63 oq, of)).
    { destruct of as [f|]; cbn [optpre].
      - rewrite app_assoc. rewrite split_once_app; [reflexivity|]. intros Hc. apply in_app_or in Hc. destruct Hc as [Hc|Hc]; [exact (N35dp Hc)|].
        destruct oq as [q|]; cbn [optpre] in Hc; [destruct Hc as [Hc|Hc]; [discriminate|exact (N35q q eq_refl Hc)]|destruct Hc].
      - rewrite app_nil_r. rewrite split_once_notin; [reflexivity|]. intros Hc. apply in_app_or in Hc. destruct Hc as [Hc|Hc]; [exact (N35dp Hc)|].
        destruct oq as [q|]; cbn [optpre] in Hc; [destruct Hc as [Hc|Hc]; [discriminate|exact (N35q q eq_refl Hc)]|destruct Hc]. }
    rewrite S1. cbn [fst snd].
    assert (S2 : (match split_once 63 ((did ++ p) ++ optpre 63 oq) with Some (r, q) => (r, Some q) | None => ((did ++ p) ++ optpre 63 oq, None) end) = (did ++ p, oq)).
    { destruct oq as [q|]; cbn [optpre]; [rewrite split_once_app; [reflexivity|exact N63dp]|rewrite app_nil_r, split_once_notin; [reflexivity|exact N63dp]]. }
    rewrite S2. cbn [fst snd].
    assert (S3 : before_c 47 (did ++ p) = did).
    { destruct Wp as [->|[t [-> _]]]; [rewrite app_nil_r; apply before_c_none; exact N47d|apply before_c_app; exact N47d]. }
    rewrite S3. rewrite skipn_app_len.
    unfold did at 1. rewrite (core_did_complete_pct m i Nm Vm Ni Vi). cbn [obind fst snd].
    assert (Sp : set_path (Some p) = Ok (opt_nonempty p)).
    { destruct Wp as [->|[t [-> V]]]; [reflexivity|]. unfold set_path. change (47 =? 47) with true. rewrite V. reflexivity. }
    rewrite Sp. cbn [obind].
    assert (Sq : set_query (match oq with Some x => Some (63 :: x) | None => None end) = Ok (option_map (cons 63) oq)).
    { destruct oq as [q|]; [|reflexivity]. destruct (Wq q eq_refl) as [Nq Vq]. unfold set_query. change (strip1 63 (63 :: q)) with q. rewrite Vq. destruct q; [congruence|reflexivity]. }
    rewrite Sq. cbn [obind].
    assert (Sf : set_fragment (match of with Some x => Some (35 :: x) | None => None end) = Ok (option_map (cons 35) of)).
    { destruct of as [f|]; [|reflexivity]. destruct (Wf f eq_refl) as [Nf Vf]. unfold set_fragment. change (strip1 35 (35 :: f)) with f. rewrite Vf. destruct f; [congruence|reflexivity]. }
    rewrite Sf. cbn [obind]. reflexivity.
  Qed.
End Reparse.

(* every well-formed value re-parses from its string form to ITSELF *)
Theorem split_wfp_reparses u : wfp_url u -> did_url_split_parse (did_url_to_string u) = Ok u.
Proof.
  intros [Ed [Nm [Vm [Ni [Vi [Wp [Wq Wf]]]]]]].
  destruct u as [d m i up uq uf]. cbn [u_did u_method u_mid u_path u_query u_frag] in *.
  set (p := oapp up).
  set (oq := match uq with Some (_ :: t) => Some t | _ => None end).
  set (of := match uf with Some (_ :: t) => Some t | _ => None end).
  assert (up = opt_nonempty p) as Ep.
  { unfold p. destruct up as [x|]; [|reflexivity]. destruct (Wp x eq_refl) as [t [-> _]]. reflexivity. }
  assert (uq = option_map (cons 63) oq) as Eq.
  { unfold oq. destruct uq as [x|]; [|reflexivity]. destruct (Wq x eq_refl) as [t [-> _]]. reflexivity. }
  assert (uf = option_map (cons 35) of) as Ef.
  { unfold of. destruct uf as [x|]; [|reflexivity]. destruct (Wf x eq_refl) as [t [-> _]]. reflexivity. }
  pose proof (split_complete_pct m i Nm Vm Ni Vi p oq of) as C.
  assert (did_url_to_string {| u_did := d; u_method := m; u_mid := i; u_path := up; u_query := uq; u_frag := uf |}
          = ([100; 105; 100; 58] ++ m ++ [58] ++ i) ++ p ++ optpre 63 oq ++ optpre 35 of) as Es.
  { unfold did_url_to_string. cbn [u_did u_path u_query u_frag]. rewrite Ed, Eq, Ef. fold p. destruct oq, of; reflexivity. }
  rewrite Es, C, <- Ed, <- Ep, <- Eq, <- Ef; [reflexivity| | |].
  - unfold p. destruct up as [x|]; [|left; reflexivity]. right. exact (Wp x eq_refl).
  - intros q Hq. unfold oq in Hq. destruct uq as [x|]; [|discriminate]. destruct (Wq x eq_refl) as [t [-> [Nt Vt]]]. inversion Hq; subst q. auto.
  - intros f Hf. unfold of in Hf. destruct uf as [x|]; [|discriminate]. destruct (Wf x eq_refl) as [t [-> [Nt Vt]]]. inversion Hf; subst f. auto.
Qed.
(* every accepted value is well formed: the parser accepts EXACTLY the string forms of the well-formed values, for EVERY byte string *)
Theorem split_parse_wfp s u : did_url_split_parse s = Ok u -> wfp_url u.
Proof. intros H. destruct (did_url_split_sound s u H) as [_ [Ed [Nm [Ni [Vm [Vi [Wp [Wq Wf]]]]]]]]. unfold wfp_url. repeat split; auto.
  intros q Hq. destruct (Wq q Hq) as [t [Et [Nt [V _]]]]. exists t. auto. Qed.
Theorem split_accept_iff_pct s : (exists u, did_url_split_parse s = Ok u) <-> exists u, wfp_url u /\ s = did_url_to_string u.
Proof. split.
  - intros [u H]. exists u. split; [exact (split_parse_wfp s u H)|]. destruct (did_url_split_sound s u H) as [Es _]. symmetry. exact Es.
  - intros [u [W ->]]. exists u. apply split_wfp_reparses. exact W. Qed.
(* the percent-free notion is the special case *)
Lemma wf_url_wfp u : wf_url u -> wfp_url u.
Proof. intros [Ed [Nm [Cm [Ni [Ci [Wp [Wq Wf]]]]]]]. unfold wfp_url. repeat split; auto.
  - apply valid_mid_plain. exact Ci.
  - intros p Hp. destruct (Wp p Hp) as [t [Et C]]. exists t. split; [exact Et|].
    assert (forallb char_query p = true) as Cq by (revert C; apply forallb_imp; exact char_path_query).
    exact (valid_seg_plain char_path p C (sub_no_pct_of_class _ Cq)).
  - intros q Hq. destruct (Wq q Hq) as [t [Et [Nt [C _]]]]. exists t. repeat split; auto. exact (valid_seg_plain char_query t C (sub_no_pct_of_class _ C)).
  - intros f Hf. destruct (Wf f Hf) as [t [Et [Nt C]]]. exists t. repeat split; auto. exact (valid_seg_plain char_query t C (sub_no_pct_of_class _ C)).
Qed.

(* a successful setter on a well-formed value yields a well-formed value, which therefore re-parses to itself - percent or not *)
Theorem set_path_wfp u v r : wfp_url u -> set_path v = Ok r -> wfp_url (with_path u r).
Proof. intros [Ed [Nm [Vm [Ni [Vi [Wp [Wq Wf]]]]]]] S. unfold wfp_url, with_path. cbn [u_did u_method u_mid u_path u_query u_frag]. repeat split; auto.
  intros p Hp. subst r. apply set_path_sound in S. destruct S as [_ X]. exact X. Qed.
Theorem set_query_wfp u v r : wfp_url u -> set_query v = Ok r -> wfp_url (with_query u r).
Proof. intros [Ed [Nm [Vm [Ni [Vi [Wp [Wq Wf]]]]]]] S. unfold wfp_url, with_query. cbn [u_did u_method u_mid u_path u_query u_frag]. repeat split; auto.
  intros q Hq. subst r. apply set_query_sound in S. destruct S as [t [Et [Nt [V _]]]]. exists t. auto. Qed.
Theorem set_fragment_wfp u v r : wfp_url u -> set_fragment v = Ok r -> wfp_url (with_frag u r).
Proof. intros [Ed [Nm [Vm [Ni [Vi [Wp [Wq Wf]]]]]]] S. unfold wfp_url, with_frag. cbn [u_did u_method u_mid u_path u_query u_frag]. repeat split; auto.
  intros f Hf. subst r. apply set_fragment_sound in S. destruct S as [t [Et [Nt [V _]]]]. exists t. auto. Qed.
Theorem set_path_reparses_pct u v r : wfp_url u -> set_path v = Ok r -> did_url_split_parse (did_url_to_string (with_path u r)) = Ok (with_path u r).
Proof. intros W S. apply split_wfp_reparses. exact (set_path_wfp u v r W S). Qed.
Theorem set_query_reparses_pct u v r : wfp_url u -> set_query v = Ok r -> did_url_split_parse (did_url_to_string (with_query u r)) = Ok (with_query u r).
Proof. intros W S. apply split_wfp_reparses. exact (set_query_wfp u v r W S). Qed.
Theorem set_fragment_reparses_pct u v r : wfp_url u -> set_fragment v = Ok r -> did_url_split_parse (did_url_to_string (with_frag u r)) = Ok (with_frag u r).
Proof. intros W S. apply split_wfp_reparses. exact (set_fragment_wfp u v r W S). Qed.

(* join on a well-formed receiver: whatever it returns is well formed, keeps the DID and re-parses to itself - for EVERY segment *)
Theorem join_sound_pct u seg j : wfp_url u -> did_url_join u seg = Ok j ->
  u_did j = u_did u /\ u_method j = u_method u /\ u_mid j = u_mid u /\ wfp_url j /\ did_url_split_parse (did_url_to_string j) = Ok j.
Proof.
  intros W H. destruct (join_keeps_did u seg j H) as [A [B C]]. split; [exact A|]. split; [exact B|]. split; [exact C|].
  assert (wfp_url j) as Wj.
  { destruct W as [Ed [Nm [Vm [Ni [Vi _]]]]].
    unfold did_url_join in H. destruct seg as [|c seg']; [discriminate|]. destruct (negb _); [discriminate|].
    apply obind_ok in H as [rc [_ H]]. apply obind_ok in H as [P' [_ H]]. apply obind_ok in H as [Q' [_ H]]. apply obind_ok in H as [F' [_ H]]. cbv zeta in H.
    apply obind_ok in H as [up [Sp H]]. apply obind_ok in H as [uq [Sq H]]. apply obind_ok in H as [uf [Sf H]].
    destruct (_ || _); [discriminate|]. inversion H; subst j; clear H. unfold wfp_url. cbn [u_did u_method u_mid u_path u_query u_frag]. repeat split; auto.
    - intros p Hp. subst up. apply set_path_sound in Sp. destruct Sp as [_ X]. exact X.
    - intros q Hq. subst uq. apply set_query_sound in Sq. destruct Sq as [t [Et [Nt [V _]]]]. exists t. auto.
    - intros f Hf. subst uf. apply set_fragment_sound in Sf. destruct Sf as [t [Et [Nt [V _]]]]. exists t. auto. }
  split; [exact Wj|exact (split_wfp_reparses j Wj)].
Qed.

(* Eq / Ord / Hash: on well-formed values the string form determines the value *)
Theorem url_string_injective_pct u v : wfp_url u -> wfp_url v -> did_url_to_string u = did_url_to_string v -> u = v.
Proof. intros Wu Wv E. pose proof (split_wfp_reparses u Wu) as Pu. pose proof (split_wfp_reparses v Wv) as Pv. rewrite E in Pu. rewrite Pu in Pv. inversion Pv. reflexivity. Qed.
Theorem url_eq_iff_string_pct u v : wfp_url u -> wfp_url v -> (url_eqb u v = true <-> did_url_to_string u = did_url_to_string v).
Proof. intros Wu Wv. split; [apply url_eq_same_hash_input|]. intros E. rewrite (url_string_injective_pct u v Wu Wv E). unfold url_eqb. rewrite !list_eqb_refl'. reflexivity. Qed.

(* not vacuous: did:a:%41/p%2F?q=%41#f%41 is well formed *)
Example wfp_example : wfp_url {| u_did := [100;105;100;58;97;58;37;52;49]; u_method := [97]; u_mid := [37;52;49];
                                 u_path := Some [47;112;37;50;70]; u_query := Some [63;113;61;37;52;49]; u_frag := Some [35;102;37;52;49] |}.
Proof. unfold wfp_url. cbn [u_did u_method u_mid u_path u_query u_frag]. repeat split; try discriminate; try reflexivity.
  - intros p Hp. inversion Hp. eexists. split; reflexivity.
  - intros q Hq. inversion Hq. eexists. split; [reflexivity|]. split; [discriminate|reflexivity].
  - intros f Hf. inversion Hf. eexists. split; [reflexivity|]. split; [discriminate|reflexivity]. Qed.
