(* Proofs about the OrderedSet / OneOrSet / OneOrMany models (property C19). *)
From Coq Require Import List Bool Arith Lia.
From IdV Require Import Core.OrdSet Core.OneOr.
Import ListNotations.

Section OrdSetProofs.
  Variables (T K : Type) (key : T -> K) (keqb : K -> K -> bool).
  Hypothesis keqb_spec : forall a b, reflect (a = b) (keqb a b).

  Notation contains := (os_contains T K key keqb).
  Notation append := (os_append T K key keqb).
  Notation prepend := (os_prepend T K key keqb).
  Notation change := (os_change T).
  Notation replace := (os_replace T K key keqb).
  Notation update := (os_update T K key keqb).
  Notation remove := (os_remove T K key keqb).
  Notation from_iter := (os_from_iter T K key keqb).
  Notation try_from_vec := (os_try_from_vec T K key keqb).
  Notation try_from_aux := (os_try_from_aux T K key keqb).
  Notation schange := (spec_change T).
  Notation dedup := (spec_dedup T K key keqb).
  Notation step := (os_step T K key keqb).
  Notation sstep := (spec_step T K key keqb).
  Notation run := (os_run T K key keqb).

  Definition Inv (l : list T) : Prop := NoDup (map key l).

  Lemma keqb_refl k : keqb k k = true.
  Proof. destruct (keqb_spec k k); congruence. Qed.
  Lemma keqb_true a b : keqb a b = true -> a = b.
  Proof. destruct (keqb_spec a b); congruence. Qed.
  Lemma keqb_false a b : keqb a b = false -> a <> b.
  Proof. destruct (keqb_spec a b); congruence. Qed.

  (* ---------- refinement: Rust-shaped change = abstract change ---------- *)
  Lemma change_refines l d f : change l d f = schange l d f.
  Proof.
    unfold os_change. induction l as [|x r IH]; cbn [os_position spec_change]; [reflexivity|].
    destruct (f x) eqn:Hfx.
    - cbn. rewrite Hfx. cbn. reflexivity.
    - destruct (os_position T f r) as [i|] eqn:Hp; cbn [option_map].
      + rewrite <- IH. cbn [firstn skipn app]. reflexivity.
      + rewrite <- IH. reflexivity.
  Qed.

  Theorem step_refines l o : step l o = sstep l o.
  Proof.
    destruct o as [x|x|k x|x|k]; cbn [os_step spec_step].
    - unfold os_append. destruct (contains l (key x)); reflexivity.
    - unfold os_prepend. destruct (contains l (key x)); reflexivity.
    - unfold os_replace. rewrite change_refines. reflexivity.
    - unfold os_update. rewrite change_refines. reflexivity.
    - reflexivity.
  Qed.

  (* ---------- membership ---------- *)
  Lemma contains_false_notin l k : contains l k = false -> ~ In k (map key l).
  Proof.
    unfold os_contains. induction l as [|x r IH]; cbn; [tauto|].
    intros H. apply orb_false_elim in H as [H1 H2]. intros [E|I].
    - unfold os_has_key in H1. apply keqb_false in H1. congruence.
    - apply IH; assumption.
  Qed.
  Lemma contains_true_in l k : contains l k = true -> In k (map key l).
  Proof.
    unfold os_contains. induction l as [|x r IH]; cbn; [discriminate|].
    intros H. apply orb_true_iff in H as [H|H].
    - left. apply keqb_true. exact H.
    - right. apply IH. exact H.
  Qed.
  Lemma contains_iff l k : contains l k = true <-> In k (map key l).
  Proof.
    split; [apply contains_true_in|]. intros I. destruct (contains l k) eqn:E; [reflexivity|].
    exfalso. exact (contains_false_notin _ _ E I).
  Qed.

  (* ---------- invariant ---------- *)
  Lemma inv_app_one l x : Inv l -> ~ In (key x) (map key l) -> Inv (l ++ [x]).
  Proof.
    unfold Inv. intros H Hn. rewrite map_app. cbn.
    induction l as [|y r IH]; cbn in *.
    - constructor; [tauto|constructor].
    - inversion H as [|? ? Hy Hr]; subst. constructor.
      + rewrite in_app_iff. cbn. intros [I|[E|[]]]; [tauto|]. apply Hn. left. congruence.
      + apply IH; [assumption|]. intros I. apply Hn. right. assumption.
  Qed.

  Lemma append_inv l x : Inv l -> Inv (fst (append l x)).
  Proof.
    unfold os_append. intros H. destruct (contains l (key x)) eqn:C; cbn; [exact H|].
    apply inv_app_one; [exact H|]. apply contains_false_notin. exact C.
  Qed.

  Lemma prepend_inv l x : Inv l -> Inv (fst (prepend l x)).
  Proof.
    unfold os_prepend, Inv. intros H. destruct (contains l (key x)) eqn:C; cbn; [exact H|].
    constructor; [|exact H]. apply contains_false_notin. exact C.
  Qed.

  Lemma filter_key_sub (g : T -> bool) l k : In k (map key (filter g l)) -> In k (map key l).
  Proof. induction l as [|x r IH]; cbn; [tauto|]. destruct (g x); cbn; tauto. Qed.

  Lemma filter_inv (g : T -> bool) l : Inv l -> Inv (filter g l).
  Proof.
    unfold Inv. induction l as [|x r IH]; cbn; intros H; [constructor|].
    inversion H as [|? ? Hx Hr]; subst. destruct (g x); cbn; [|auto].
    constructor; [|auto]. intros I. apply Hx. eapply filter_key_sub; eauto.
  Qed.

  Lemma schange_keys l d f k :
    In k (map key (fst (schange l d f))) -> In k (map key l) \/ k = key d.
  Proof.
    induction l as [|y s IHs]; cbn [spec_change].
    - cbn. tauto.
    - destruct (f y).
      + cbn. intros [Ek|Ik]; [auto|]. left. right. eapply filter_key_sub; eauto.
      + destruct (schange s d f) as [s' b'] eqn:E'. cbn [fst map In] in *.
        intros [Ek|Ik]; [auto|]. destruct (IHs Ik); auto.
  Qed.

  Lemma schange_inv l d f :
    (forall x, keqb (key x) (key d) = true -> f x = true) ->
    Inv l -> Inv (fst (schange l d f)).
  Proof.
    intros Hf. unfold Inv. induction l as [|x r IH]; cbn [spec_change]; intros H; [constructor|].
    inversion H as [|? ? Hx Hr]; subst.
    destruct (f x) eqn:Hfx; cbn.
    - constructor.
      + intros I. apply in_map_iff in I as [y [Ey Iy]]. apply filter_In in Iy as [_ Iy].
        assert (f y = true) as Hy.
        { apply Hf. rewrite Ey. apply keqb_refl. }
        rewrite Hy in Iy. discriminate.
      + apply filter_inv. exact Hr.
    - pose proof (schange_keys r d f) as Hsub.
      destruct (schange r d f) as [r' b] eqn:E. cbn [fst] in *. cbn. constructor; [|auto].
      intros I. destruct (Hsub _ I) as [I'|Ed]; [tauto|].
      assert (f x = true); [|congruence]. apply Hf. rewrite Ed. apply keqb_refl.
  Qed.

  Lemma remove_keys l k k' : In k' (map key (fst (remove l k))) -> In k' (map key l).
  Proof.
    induction l as [|x r IH]; cbn [os_remove]; [cbn; tauto|].
    destruct (os_has_key T K key keqb k x); [cbn; tauto|].
    destruct (remove r k) as [r' o]. cbn [fst map In] in *. tauto.
  Qed.

  Lemma remove_inv l k : Inv l -> Inv (fst (remove l k)).
  Proof.
    unfold Inv. induction l as [|x r IH]; cbn [os_remove]; intros H; [constructor|].
    inversion H as [|? ? Hx Hr]; subst.
    destruct (os_has_key T K key keqb k x); [exact Hr|].
    pose proof (remove_keys r k) as Hs.
    destruct (remove r k) as [r' o]. cbn [fst map] in *. constructor; [|auto].
    intros I. apply Hx. apply Hs. exact I.
  Qed.

  Lemma step_inv l o : Inv l -> Inv (fst (step l o)).
  Proof.
    intros H. rewrite step_refines. destruct o as [x|x|k x|x|k]; cbn [spec_step].
    - pose proof (append_inv l x H) as A. unfold os_append in A.
      destruct (contains l (key x)); exact A.
    - pose proof (prepend_inv l x H) as A. unfold os_prepend in A.
      destruct (contains l (key x)); exact A.
    - pose proof (schange_inv l x (fun it => keqb (key it) k || keqb (key it) (key x))) as A.
      destruct (schange l x _) as [l' b]. apply A; [|exact H].
      intros y Hy. rewrite Hy. apply orb_true_r.
    - pose proof (schange_inv l x (fun it => keqb (key it) (key x))) as A.
      destruct (schange l x _) as [l' b]. apply A; [|exact H]. intros y Hy. exact Hy.
    - pose proof (remove_inv l k H) as A. destruct (remove l k) as [l' o]. exact A.
  Qed.

  Theorem run_inv ops : forall l, Inv l -> Inv (run ops l).
  Proof.
    unfold os_run. induction ops as [|o ops IH]; cbn [fold_left]; intros l H; [exact H|].
    apply IH. apply step_inv. exact H.
  Qed.

  (* ---------- order ---------- *)
  (* elements not matched by f keep their relative order and multiplicity *)
  Lemma filter_filter_same (g : T -> bool) l : filter g (filter g l) = filter g l.
  Proof.
    induction l as [|x r IH]; cbn; [reflexivity|]. destruct (g x) eqn:E; cbn; [rewrite E, IH|]; auto.
  Qed.

  Theorem schange_survivors l d f : f d = true ->
    filter (fun y => negb (f y)) (fst (schange l d f)) = filter (fun y => negb (f y)) l.
  Proof.
    intros Hd. induction l as [|x r IH]; cbn [spec_change]; [reflexivity|].
    destruct (f x) eqn:E.
    - cbn [fst filter]. rewrite Hd, E. cbn [negb]. apply filter_filter_same.
    - destruct (schange r d f) as [r' b]. cbn [fst filter] in *. rewrite E. cbn [negb]. f_equal. exact IH.
  Qed.

  (* the new element sits where the first matched element was *)
  Theorem schange_in_place l d f pre x post :
    l = pre ++ x :: post -> forallb (fun y => negb (f y)) pre = true -> f x = true ->
    schange l d f = (pre ++ d :: filter (fun y => negb (f y)) post, true).
  Proof.
    intros -> Hpre Hx. induction pre as [|p pre IH]; cbn [app spec_change].
    - rewrite Hx. reflexivity.
    - cbn [forallb] in Hpre. apply andb_prop in Hpre as [Hp Hpre]. apply negb_true_iff in Hp.
      rewrite Hp. rewrite (IH Hpre). reflexivity.
  Qed.

  Theorem schange_none l d f :
    forallb (fun y => negb (f y)) l = true -> schange l d f = (l, false).
  Proof.
    induction l as [|x r IH]; cbn [spec_change forallb]; [reflexivity|].
    intros H. apply andb_prop in H as [Hx Hr]. apply negb_true_iff in Hx. rewrite Hx, (IH Hr). reflexivity.
  Qed.

  Theorem remove_spec_some l k l' x : remove l k = (l', Some x) ->
    exists pre post, l = pre ++ x :: post /\ l' = pre ++ post /\ key x = k /\ ~ In k (map key pre).
  Proof.
    revert l'. induction l as [|y r IH]; cbn [os_remove]; intros l' H; [discriminate|].
    destruct (os_has_key T K key keqb k y) eqn:E.
    - inversion H; subst. exists [], l'. cbn. repeat split; auto. apply keqb_true. exact E.
    - destruct (remove r k) as [r' o] eqn:R. inversion H; subst.
      destruct (IH r' eq_refl) as [pre [post [E1 [E2 [E3 E4]]]]].
      exists (y :: pre), post. cbn. subst. repeat split; auto.
      intros [Ey|I]; [|tauto]. unfold os_has_key in E. apply keqb_false in E. congruence.
  Qed.

  Theorem remove_spec_none l k l' : remove l k = (l', None) -> l' = l /\ ~ In k (map key l).
  Proof.
    revert l'. induction l as [|y r IH]; cbn [os_remove]; intros l' H.
    - inversion H. cbn. tauto.
    - destruct (os_has_key T K key keqb k y) eqn:E; [discriminate|].
      destruct (remove r k) as [r' o] eqn:R. inversion H; subst.
      destruct (IH r' eq_refl) as [E1 E2]. subst. split; [reflexivity|].
      cbn. intros [Ey|I]; [|tauto]. unfold os_has_key in E. apply keqb_false in E. congruence.
  Qed.

  Theorem remove_gone l k : Inv l -> ~ In k (map key (fst (remove l k))).
  Proof.
    intros H. destruct (remove l k) as [l' [x|]] eqn:R; cbn [fst].
    - destruct (remove_spec_some _ _ _ _ R) as [pre [post [E1 [E2 [E3 E4]]]]]. subst.
      unfold Inv in H. rewrite map_app in *. cbn in H. apply NoDup_remove_2 in H. exact H.
    - destruct (remove_spec_none _ _ _ R) as [-> N]. exact N.
  Qed.

  (* ---------- constructors ---------- *)
  Lemma try_from_aux_spec l : forall acc, Inv acc ->
    (forall r, try_from_aux acc l = Some r -> r = acc ++ l /\ Inv r) /\
    (try_from_aux acc l = None -> ~ Inv (acc ++ l)).
  Proof.
    induction l as [|x l IH]; intros acc Ha; cbn [os_try_from_aux].
    - split; [|discriminate]. intros r H. inversion H; subst. rewrite app_nil_r. auto.
    - destruct (contains acc (key x)) eqn:C.
      + split; [discriminate|]. intros _ Hn. unfold Inv in Hn.
        apply contains_true_in in C. rewrite map_app in Hn. cbn in Hn.
        apply NoDup_remove_2 in Hn. apply Hn. rewrite in_app_iff. left. exact C.
      + assert (Inv (acc ++ [x])) as Ha'.
        { apply inv_app_one; [exact Ha|]. apply contains_false_notin. exact C. }
        destruct (IH (acc ++ [x]) Ha') as [I1 I2]. rewrite <- app_assoc in I1, I2. cbn in I1, I2.
        split; assumption.
  Qed.

  Theorem try_from_vec_iff l r : try_from_vec l = Some r <-> (NoDup (map key l) /\ r = l).
  Proof.
    unfold os_try_from_vec.
    assert (Inv []) as H0 by constructor.
    destruct (try_from_aux_spec l [] H0) as [I1 I2]. cbn [app] in *.
    split.
    - intros H. destruct (I1 _ H) as [-> Hi]. auto.
    - intros [Hn ->]. destruct (try_from_aux [] l) as [r|] eqn:E.
      + destruct (I1 _ eq_refl) as [-> _]. reflexivity.
      + exfalso. apply I2; auto.
  Qed.

  Lemma filter_filter_and (p q : T -> bool) l :
    filter p (filter q l) = filter (fun y => q y && p y) l.
  Proof.
    induction l as [|x r IH]; cbn; [reflexivity|].
    destruct (q x); cbn; [destruct (p x); cbn; rewrite IH; reflexivity|exact IH].
  Qed.
  Lemma keqb_sym a b : keqb a b = keqb b a.
  Proof. destruct (keqb_spec a b), (keqb_spec b a); congruence. Qed.
  Lemma contains_app acc x k : contains (acc ++ [x]) k = contains acc k || keqb (key x) k.
  Proof. unfold os_contains. rewrite existsb_app. cbn. unfold os_has_key. rewrite orb_false_r. reflexivity. Qed.

  (* the collecting constructor keeps the first occurrence of every key *)
  Lemma from_iter_acc l : forall acc,
    fold_left (fun a x => fst (append a x)) l acc =
    acc ++ filter (fun y => negb (contains acc (key y))) (dedup l).
  Proof.
    induction l as [|x l IH]; intros acc; cbn [fold_left spec_dedup filter].
    - rewrite app_nil_r. reflexivity.
    - rewrite IH. unfold os_append. destruct (contains acc (key x)) eqn:C; cbn [fst negb].
      + f_equal. rewrite filter_filter_and. apply filter_ext. intros y.
        destruct (keqb (key y) (key x)) eqn:E; cbn [negb andb]; [|reflexivity].
        apply keqb_true in E. rewrite E, C. reflexivity.
      + rewrite <- app_assoc. cbn [app]. f_equal. f_equal.
        rewrite filter_filter_and. apply filter_ext. intros y.
        rewrite contains_app, (keqb_sym (key x) (key y)).
        destruct (keqb (key y) (key x)), (contains acc (key y)); reflexivity.
  Qed.
  Theorem from_iter_is_dedup l : from_iter l = dedup l.
  Proof.
    unfold os_from_iter. rewrite from_iter_acc. cbn [app]. 
    rewrite (filter_ext _ (fun _ => true)); [|reflexivity].
    induction (dedup l) as [|a r IHr]; cbn; [reflexivity|]. rewrite IHr. reflexivity.
  Qed.

  (* A direct characterisation is easier: from_iter keeps Inv and its keys are those of l,
     and on duplicate-free input it is the identity. *)
  Lemma from_iter_fold_inv l : forall acc, Inv acc ->
    Inv (fold_left (fun a x => fst (append a x)) l acc).
  Proof.
    induction l as [|x l IH]; intros acc H; cbn [fold_left]; [exact H|].
    apply IH. apply append_inv. exact H.
  Qed.
  Theorem from_iter_inv l : Inv (from_iter l).
  Proof. apply from_iter_fold_inv. constructor. Qed.

  Lemma from_iter_fold_nodup l : forall acc, Inv (acc ++ l) ->
    fold_left (fun a x => fst (append a x)) l acc = acc ++ l.
  Proof.
    induction l as [|x l IH]; intros acc H; cbn [fold_left]; [rewrite app_nil_r; reflexivity|].
    unfold os_append at 2.
    destruct (contains acc (key x)) eqn:C.
    - exfalso. apply contains_true_in in C. unfold Inv in H. rewrite map_app in H. cbn in H.
      apply NoDup_remove_2 in H. apply H. rewrite in_app_iff. left. exact C.
    - cbn [fst]. rewrite IH; rewrite <- app_assoc; cbn [app]; [reflexivity|exact H].
  Qed.
  Theorem from_iter_nodup_id l : NoDup (map key l) -> from_iter l = l.
  Proof. intros H. unfold os_from_iter. rewrite from_iter_fold_nodup; [reflexivity|exact H]. Qed.

  (* keeps first occurrences: prefix form.  The accumulated list is always a prefix-extension,
     an element is appended iff its key has not been seen. *)
  Lemma from_iter_fold_keys l : forall acc k,
    In k (map key (fold_left (fun a x => fst (append a x)) l acc)) <-> In k (map key acc) \/ In k (map key l).
  Proof.
    induction l as [|x l IH]; intros acc k; cbn [fold_left map In]; [tauto|].
    rewrite IH. unfold os_append. destruct (contains acc (key x)) eqn:C; cbn [fst].
    - apply contains_true_in in C. split; [tauto|]. intros [H|[H|H]]; auto. subst. auto.
    - rewrite map_app, in_app_iff. cbn. tauto.
  Qed.
  Theorem from_iter_keys l k : In k (map key (from_iter l)) <-> In k (map key l).
  Proof. unfold os_from_iter. rewrite from_iter_fold_keys. cbn. tauto. Qed.

  (* first occurrence wins: from_iter (l1 ++ l2) starts with from_iter l1 *)
  Lemma from_iter_fold_prefix l : forall acc, exists suf,
    fold_left (fun a x => fst (append a x)) l acc = acc ++ suf.
  Proof.
    induction l as [|x l IH]; intros acc; cbn [fold_left].
    - exists []. rewrite app_nil_r. reflexivity.
    - destruct (IH (fst (append acc x))) as [suf E]. rewrite E. unfold os_append.
      destruct (contains acc (key x)); cbn [fst].
      + exists suf. reflexivity.
      + exists (x :: suf). rewrite <- app_assoc. reflexivity.
  Qed.
  Theorem from_iter_keeps_first l1 l2 : exists suf, from_iter (l1 ++ l2) = from_iter l1 ++ suf.
  Proof. unfold os_from_iter. rewrite fold_left_app. apply from_iter_fold_prefix. Qed.

  (* ---------- OneOrSet ---------- *)
  Notation oneorset := (oneorset T).
  Notation oos_new_set := (oos_new_set T).
  Notation oos_try_from_vec := (oos_try_from_vec T K key keqb).
  Notation oos_append := (oos_append T K key keqb).
  Notation oos_map := (oos_map T K key keqb).
  Notation oos_ser := (oos_ser T).
  Notation oos_deser := (oos_deser T K key keqb).
  Notation oos_wf := (oos_wf T K key).
  Notation oos_to_list := (oos_to_list T).

  Theorem oos_nonempty v : oos_wf v -> oos_to_list v <> [].
  Proof. destruct v as [x|l]; cbn; [discriminate|]. intros [H _] E. subst. cbn in H. lia. Qed.
  Theorem oos_unique v : oos_wf v -> Inv (oos_to_list v).
  Proof. destruct v as [x|l]; cbn; [|tauto]. intros _. unfold Inv. cbn. constructor; [tauto|constructor]. Qed.

  Theorem oos_new_set_spec l : Inv l ->
    match oos_new_set l with
    | None => l = []
    | Some v => oos_wf v /\ oos_to_list v = l
    end.
  Proof.
    intros H. destruct l as [|x [|y r]]; cbn; auto. split; [|reflexivity]. split; [lia|exact H].
  Qed.

  Theorem oos_try_from_vec_spec l :
    match oos_try_from_vec l with
    | None => l = [] \/ ~ NoDup (map key l)
    | Some v => oos_wf v /\ oos_to_list v = l
    end.
  Proof.
    unfold OneOr.oos_try_from_vec. destruct (try_from_vec l) as [s|] eqn:E.
    - apply try_from_vec_iff in E as [Hn ->]. pose proof (oos_new_set_spec l Hn) as S.
      destruct (oos_new_set l); [exact S|left; exact S].
    - right. intros Hn. assert (try_from_vec l = Some l) by (apply try_from_vec_iff; auto). congruence.
  Qed.

  Theorem oos_append_wf v x : oos_wf v -> oos_wf (fst (oos_append v x)).
  Proof.
    destruct v as [y|l]; cbn [OneOr.oos_append].
    - intros _. destruct (keqb (key y) (key x)) eqn:E; cbn [fst]; [exact I|].
      cbn. unfold os_from_iter. cbn. unfold os_append at 2. cbn. unfold os_append. cbn.
      unfold os_has_key. rewrite E. cbn. split; [lia|].
      constructor; [|constructor; [tauto|constructor]]. cbn. intros [H|[]].
      apply keqb_false in E. congruence.
    - intros [Hne Hi]. pose proof (append_inv l x Hi) as A. unfold os_append in *.
      destruct (contains l (key x)); cbn [fst] in *; split; auto.
      rewrite app_length. cbn [length]. lia.
  Qed.

  Theorem oos_map_wf f v : oos_wf v -> oos_wf (oos_map f v).
  Proof.
    destruct v as [y|l]; cbn [OneOr.oos_map]; [tauto|].
    intros [Hne _]. pose proof (from_iter_inv (map f l)) as Hi.
    assert (from_iter (map f l) <> []) as Hn.
    { destruct l as [|a l]; [cbn in Hne; lia|]. cbn [map].
      destruct (from_iter_keeps_first [f a] (map f l)) as [suf E]. cbn [app] in E. rewrite E.
      unfold os_from_iter. cbn. discriminate. }
    destruct (from_iter (map f l)) as [|a [|b r]]; cbn; [congruence|exact I|]. split; [lia|exact Hi].
  Qed.

  Theorem oos_singleton_bare_one x : oos_ser (oos_new_one T x) = JVal x.
  Proof. reflexivity. Qed.
  Theorem oos_singleton_bare_set x : option_map oos_ser (oos_new_set [x]) = Some (JVal x).
  Proof. reflexivity. Qed.
  Theorem oos_singleton_bare_vec x : option_map oos_ser (oos_try_from_vec [x]) = Some (JVal x).
  Proof. reflexivity. Qed.

  Theorem oos_deser_ser v : oos_wf v -> oos_deser (oos_ser v) = Some v.
  Proof.
    destruct v as [x|l]; cbn; [reflexivity|]. intros [Hne Hi]. unfold OneOr.oos_deser, oos_deser_gen.
    assert (try_from_vec l = Some l) as -> by (apply try_from_vec_iff; auto).
    destruct l as [|a [|b r]]; cbn in Hne; try lia. reflexivity.
  Qed.

  Theorem oos_deser_wf j v : oos_deser j = Some v -> oos_wf v.
  Proof.
    unfold OneOr.oos_deser, oos_deser_gen. destruct j as [x|xs]; cbn.
    - intros H. inversion H. exact I.
    - destruct (try_from_vec xs) as [s|] eqn:E; [|discriminate].
      apply try_from_vec_iff in E as [Hn ->]. destruct xs as [|a [|b r]]; [discriminate| |].
      + intros H. inversion H; subst. exact I.
      + intros H. inversion H; subst. split; [cbn [length]; lia|exact Hn].
  Qed.
  (* the tree before the fix: a one-element array deserialised to a one-element Set, unequal to the One every constructor builds from the same item *)
  Theorem oos_deser_pinned_singleton_set x : oos_deser_gen T K key keqb true (JArr [x]) = Some (OSSet [x]) /\ oos_deser (JArr [x]) = Some (OSOne x).
  Proof. unfold OneOr.oos_deser, oos_deser_gen. cbn. split; reflexivity. Qed.

  (* ---------- OneOrMany ---------- *)
  Theorem oom_deser_ser (v : oneormany T) : oom_deser T (oom_ser T v) = Some v.
  Proof. destruct v; reflexivity. Qed.
  Theorem oom_singleton_bare x : oom_ser T (oom_from_vec T [x]) = JVal x.
  Proof. reflexivity. Qed.
  Theorem oom_from_vec_list l : oom_to_list T (oom_from_vec T l) = l.
  Proof. destruct l as [|x [|y r]]; reflexivity. Qed.
  Theorem oom_push_list v x :
    oom_to_list T (oom_push T v x) = oom_to_list T v ++ [x].
  Proof. destruct v as [y|[|a l]]; reflexivity. Qed.
End OrdSetProofs.
