(* Proofs about the JWT presentation validation model (C03). *)
From Coq Require Import List ZArith Bool Lia.
From IdV Require Import Doc.Doc Core.Timestamp Cred.Claims Cred.Validate Cred.PresValidate Proofs.ValidateProofs Proofs.ClaimsProofs.
Import ListNotations.
Open Scope Z_scope.

Definition jws_ok (t : ptoken) (h : holder) (o : pvopts) : Prop :=
  pt_nonce t = po_nonce o /\
  exists q m, (match po_method_id o with Some u => Some (query_of_url u) | None => pt_kid t end) = Some q
    /\ resolve_method (h_doc h) q (po_scope o) = Some m /\ is_jwk (m_data m) = true /\ pt_sig_ok t (m_data m) = true.
Theorem verify_jws_ok t h o : verify_jws t h o = inl tt <-> jws_ok t h o.
Proof. unfold verify_jws, jws_ok. split.
  - destruct (oz_eqb (pt_nonce t) (po_nonce o)) eqn:En; cbn [negb]; [|discriminate]. apply oz_eqb_eq in En.
    destruct (match po_method_id o with Some u => Some (query_of_url u) | None => pt_kid t end) as [q|]; [|discriminate].
    destruct (resolve_method (h_doc h) q (po_scope o)) as [m|] eqn:Er; [|discriminate].
    destruct (is_jwk (m_data m)) eqn:Ej; cbn [negb]; [|discriminate]. destruct (pt_sig_ok t (m_data m)) eqn:Es; [|discriminate].
    intros _. split; [exact En|]. exists q, m. repeat split; assumption.
  - intros [En [q [m [Hq [Hr [Hj Hs]]]]]]. apply oz_eqb_eq in En. rewrite En, Hq, Hr, Hj. cbn [negb]. rewrite Hs. reflexivity. Qed.

(* accepted exactly when the JWS verifies under a key of the holder document chosen by kid / method id in scope with matching
   nonce, iss is the holder document's DID, the claims decode consistently with dates in range, expiry >= bound, issuance <= bound;
   what is returned is what the claims say *)
Definition pres_accept (t : ptoken) (h : holder) (o : pvopts) (d : pdecoded) : Prop :=
  jws_ok t h o /\ exists k, pt_claims t = Some k /\ pt_iss_did t = Some (h_id h) /\ from_pclaims k = ROk d
  /\ (forall e, d_expires d = Some e -> po_earliest_expiry o <= e) /\ (forall i, d_issued d = Some i -> i <= po_latest_issuance o).
Definition iss_pv (k : pclaims) : res (option Z) pverr :=
  match pk_iat k, pk_nbf k with None, None => ROk None | ia, nb => match to_issuance_date ia nb with ROk d => ROk (Some d) | RErr _ => RErr PVTimestamp end end.
Definition iss_p (k : pclaims) : res (option Z) perr :=
  match pk_iat k, pk_nbf k with None, None => ROk None | ia, nb => match to_issuance_date ia nb with ROk d => ROk (Some d) | RErr _ => RErr PTimestamp end end.
Definition exp_p (k : pclaims) : res (option Z) perr :=
  match pk_exp k with Some e => if ts_gate e then ROk (Some e) else RErr PTimestamp | None => ROk None end.
Lemma iss_equiv k isd : iss_pv k = ROk isd <-> iss_p k = ROk isd.
Proof. unfold iss_pv, iss_p. destruct (pk_iat k), (pk_nbf k); try destruct (to_issuance_date _ _); split; intros H; try discriminate H; injection H as <-; reflexivity. Qed.
Lemma exp_equiv k ex : gate_opt (pk_exp k) = ROk ex <-> exp_p k = ROk ex.
Proof. unfold gate_opt, exp_p. destruct (pk_exp k) as [e|]; [destruct (ts_gate e)|]; split; intros H; try discriminate H; injection H as <-; reflexivity. Qed.
Lemma from_pclaims_unfold k : from_pclaims k =
  match exp_p k with RErr e => RErr e | ROk ex =>
  match iss_p k with RErr e => RErr e | ROk isd =>
  match pcheck k with RErr e => RErr e | ROk _ =>
    ROk {| d_pres := {| p_ctx := pi_ctx (pk_vp k); p_id := pk_jti k; p_types := pi_types (pk_vp k); p_vcs := pi_vcs (pk_vp k); p_holder := pk_iss k;
                        p_refresh := pi_refresh (pk_vp k); p_tou := pi_tou (pk_vp k); p_props := pi_props (pk_vp k); p_proof := pi_proof (pk_vp k) |};
           d_expires := ex; d_issued := isd; d_aud := pk_aud k |} end end end.
Proof. reflexivity. Qed.
Theorem validate_pres_accept_iff t h o d : validate_pres t h o = inl d <-> pres_accept t h o d.
Proof. unfold validate_pres, pres_accept. fold (iss_pv). split.
  - destruct (verify_jws t h o) as [[]|e] eqn:Ev; [|discriminate]. apply verify_jws_ok in Ev.
    destruct (pt_claims t) as [k|]; [|discriminate]. destruct (pt_iss_did t) as [dd|]; [|discriminate].
    destruct (dd =? h_id h) eqn:Ed; cbn [negb]; [|discriminate]. apply Z.eqb_eq in Ed. subst dd.
    destruct (gate_opt (pk_exp k)) as [ex|e] eqn:Ee; [|discriminate]. apply exp_equiv in Ee.
    destruct (match ex with None => true | Some e => po_earliest_expiry o <=? e end) eqn:Ex; cbn [negb]; [|discriminate].
    change (match pk_iat k, pk_nbf k with None, None => ROk None | ia, nb => match to_issuance_date ia nb with ROk d => ROk (Some d) | RErr _ => RErr PVTimestamp end end) with (iss_pv k).
    destruct (iss_pv k) as [isd|e] eqn:Ei; [|discriminate]. apply iss_equiv in Ei.
    destruct (match isd with None => true | Some i => i <=? po_latest_issuance o end) eqn:El; cbn [negb]; [|discriminate].
    destruct (pcheck k) as [[]|e] eqn:Ep; [|discriminate]. intros H. injection H as <-.
    split; [exact Ev|]. exists k. split; [reflexivity|]. split; [reflexivity|]. split; [rewrite from_pclaims_unfold, Ee, Ei, Ep; reflexivity|].
    cbn [d_expires d_issued]. split.
    + intros e He. subst ex. apply Z.leb_le. exact Ex.
    + intros i Hi. subst isd. apply Z.leb_le. exact El.
  - intros [Hj [k [Hk [Hi [Hf [Hx Hl]]]]]]. apply verify_jws_ok in Hj. rewrite Hj, Hk, Hi, Z.eqb_refl. cbn [negb].
    rewrite from_pclaims_unfold in Hf.
    destruct (exp_p k) as [ex|e] eqn:Ee; [|discriminate Hf]. destruct (iss_p k) as [isd|e] eqn:Ei; [|discriminate Hf].
    destruct (pcheck k) as [[]|e] eqn:Ep; [|discriminate Hf]. injection Hf as <-. cbn [d_expires d_issued] in Hx, Hl.
    apply exp_equiv in Ee. apply iss_equiv in Ei. rewrite Ee.
    assert (Ex : (match ex with None => true | Some e => po_earliest_expiry o <=? e end) = true) by (destruct ex as [e|]; [apply Z.leb_le; apply Hx; reflexivity|reflexivity]).
    rewrite Ex. cbn [negb].
    change (match pk_iat k, pk_nbf k with None, None => ROk None | ia, nb => match to_issuance_date ia nb with ROk d => ROk (Some d) | RErr _ => RErr PVTimestamp end end) with (iss_pv k).
    rewrite Ei.
    assert (El : (match isd with None => true | Some i => i <=? po_latest_issuance o end) = true) by (destruct isd as [i|]; [apply Z.leb_le; apply Hl; reflexivity|reflexivity]).
    rewrite El. reflexivity. Qed.

(* corollary in the words of the statement: what an accepted presentation guarantees *)
Theorem validate_pres_sound t h o d : validate_pres t h o = inl d ->
  jws_ok t h o /\ pt_iss_did t = Some (h_id h)
  /\ exists k, pt_claims t = Some k
     /\ p_holder (d_pres d) = pk_iss k /\ p_id (d_pres d) = pk_jti k /\ d_expires d = pk_exp k /\ d_aud d = pk_aud k
     /\ (forall v, pi_id (pk_vp k) = Some v -> pk_jti k = Some v) /\ (forall v, pi_holder (pk_vp k) = Some v -> pk_iss k = v)
     /\ (forall e, d_expires d = Some e -> ts_gate e = true /\ po_earliest_expiry o <= e)
     /\ (forall i, d_issued d = Some i -> ts_gate i = true /\ to_issuance_date (pk_iat k) (pk_nbf k) = ROk i /\ i <= po_latest_issuance o).
Proof. intros H. apply validate_pres_accept_iff in H. destruct H as [Hj [k [Hk [Hi [Hf [Hx Hl]]]]]].
  pose proof (from_pclaims_ok k d Hf) as [A1 [A2 [A3 [A4 [A5 [A6 [A7 [A8 _]]]]]]]].
  split; [exact Hj|]. split; [exact Hi|]. exists k. repeat split; try assumption.
  - apply A7. rewrite <- A3. exact H.
  - apply Hx. exact H.
  - apply (A8 i H). - apply (A8 i H). - apply Hl. exact H. Qed.

(* ---- C08: a token produced for one verification method verifies only under that method's key, the same nonce and a scope that contains it ---- *)
Theorem verify_jws_binds t h o km : (forall k, pt_sig_ok t k = true -> k = km) -> verify_jws t h o = inl tt ->
  oz_eqb (pt_nonce t) (po_nonce o) = true
  /\ exists q m, (match po_method_id o with Some u => Some (query_of_url u) | None => pt_kid t end) = Some q
       /\ resolve_method (h_doc h) q (po_scope o) = Some m /\ is_jwk (m_data m) = true /\ m_data m = km.
Proof.
  intros Hk. unfold verify_jws. destruct (oz_eqb (pt_nonce t) (po_nonce o)) eqn:En; cbn [negb]; [|discriminate].
  destruct (match po_method_id o with Some u => Some (query_of_url u) | None => pt_kid t end) as [q|] eqn:Eq; [|discriminate].
  destruct (resolve_method (h_doc h) q (po_scope o)) as [m|] eqn:Er; [|discriminate].
  destruct (is_jwk (m_data m)) eqn:Ej; cbn [negb]; [|discriminate].
  destruct (pt_sig_ok t (m_data m)) eqn:Es; [|discriminate]. intros _. split; [reflexivity|]. exists q, m. repeat split; auto.
Qed.
Corollary verify_jws_other_nonce t h o : oz_eqb (pt_nonce t) (po_nonce o) = false -> verify_jws t h o = inr PVNonce.
Proof. unfold verify_jws. intros ->. reflexivity. Qed.
Corollary verify_jws_scope_excludes t h o q : oz_eqb (pt_nonce t) (po_nonce o) = true ->
  (match po_method_id o with Some u => Some (query_of_url u) | None => pt_kid t end) = Some q ->
  resolve_method (h_doc h) q (po_scope o) = None -> verify_jws t h o = inr PVMethodNotFound.
Proof. unfold verify_jws. intros -> -> ->. reflexivity. Qed.
Corollary verify_jws_other_key t h o q m km : (forall k, pt_sig_ok t k = true -> k = km) -> oz_eqb (pt_nonce t) (po_nonce o) = true ->
  (match po_method_id o with Some u => Some (query_of_url u) | None => pt_kid t end) = Some q ->
  resolve_method (h_doc h) q (po_scope o) = Some m -> m_data m <> km -> verify_jws t h o <> inl tt.
Proof.
  intros Hk En Eq Er Hd H. destruct (verify_jws_binds t h o km Hk H) as [_ [q' [m' [Eq' [Er' [_ Ed]]]]]].
  rewrite Eq in Eq'. inversion Eq'; subst q'. rewrite Er in Er'. inversion Er'; subst m'. contradiction.
Qed.

(* rejection side, in the words of the statement: the order of the checks and what can never be accepted *)
Theorem pres_nonce_mismatch_first t h o : pt_nonce t <> po_nonce o -> validate_pres t h o = inr PVNonce.
Proof.
  intros N. unfold validate_pres, verify_jws.
  destruct (oz_eqb (pt_nonce t) (po_nonce o)) eqn:En; [apply oz_eqb_eq in En; contradiction|reflexivity].
Qed.
Theorem pres_jws_error_propagates t h o e : verify_jws t h o = inr e -> validate_pres t h o = inr e.
Proof. intros H. unfold validate_pres. rewrite H. reflexivity. Qed.
Theorem pres_foreign_holder_never_accepted t h o d : pt_iss_did t <> Some (h_id h) -> validate_pres t h o <> inl d.
Proof. intros N H. apply validate_pres_sound in H. destruct H as [_ [E _]]. contradiction. Qed.
Theorem pres_bad_signature_never_accepted t h o d :
  (forall key, pt_sig_ok t key = false) -> validate_pres t h o <> inl d.
Proof.
  intros N H. apply validate_pres_sound in H. destruct H as [[_ [q [m [_ [_ [_ S]]]]]] _].
  rewrite N in S. discriminate S.
Qed.
Theorem pres_no_method_never_accepted t h o d :
  (forall q, resolve_method (h_doc h) q (po_scope o) = None) -> validate_pres t h o <> inl d.
Proof.
  intros N H. apply validate_pres_sound in H. destruct H as [[_ [q [m [_ [R _]]]]] _].
  rewrite N in R. discriminate R.
Qed.
