(* Proofs about the SD-JWT model (C16). *)
From Coq Require Import List ZArith Bool Lia.
From IdV Require Import Lib.Outcome Doc.Doc Core.Timestamp Cred.Validate Cred.SdJwt Proofs.ValidateProofs.
Import ListNotations.
Open Scope Z_scope.

(* ---- credential path: C02's conjunction plus "the disclosures decode into the signed claims" ---- *)
Theorem sd_verify_signature_ok t issuers o c :
  sd_verify_signature t issuers o = inl c <-> (signed_by (sd_tok t) issuers o c /\ sd_decodes t = true).
Proof. unfold sd_verify_signature. split.
  - intros H. assert (V : verify_signature (sd_tok t) issuers o = inl c /\ sd_decodes t = true).
    { unfold verify_signature. destruct (parse_jwk (sd_tok t) issuers o) as [[key u]|e]; [|discriminate H].
      destruct (t_sig_ok (sd_tok t) key); cbn [negb] in *; [|discriminate H]. destruct (sd_decodes t); cbn [negb] in *; [|discriminate H]. split; [exact H|reflexivity]. }
    destruct V as [V D]. split; [apply verify_signature_ok; exact V|exact D].
  - intros [S D]. apply verify_signature_ok in S. unfold verify_signature in S. destruct (parse_jwk (sd_tok t) issuers o) as [[key u]|e]; [|discriminate S].
    destruct (t_sig_ok (sd_tok t) key); cbn [negb] in *; [|discriminate S]. rewrite D. cbn [negb]. exact S. Qed.
Theorem sd_validate_accept_iff t i o ff c :
  sd_validate t i o ff = inl c <-> (signed_by (sd_tok t) [i] o c /\ sd_decodes t = true /\ units_ok c [i] o).
Proof. unfold sd_validate. destruct (sd_verify_signature t [i] o) as [c'|e] eqn:E.
  - rewrite validate_decoded_ok. apply sd_verify_signature_ok in E. destruct E as [S D]. split.
    + intros [-> H]. split; [exact S|split; [exact D|exact H]].
    + intros [S' [_ H]]. apply verify_signature_ok in S, S'. rewrite S in S'. injection S' as ->. split; [reflexivity|exact H].
  - split; [discriminate|]. intros [S [D _]]. assert (K : sd_verify_signature t [i] o = inl c) by (apply sd_verify_signature_ok; split; assumption). rewrite K in E. discriminate E. Qed.

(* ---- key binding ---- *)
Definition kb_accept (now : Z) (t : kbtoken) (holder : doc) (o : kbopts) (c : kbclaims) : Prop :=
  kb_present t = true /\ kb_sd_ok t = true /\ kb_decodes t = true /\ kb_typ t = Some KB_TYP
  /\ (exists u m, (match ko_method_id o with Some u => Some u | None => match kb_kid t with Kid u => Some u | _ => None end end) = Some u
        /\ resolve_method holder (query_of_url u) (ko_scope o) = Some m /\ is_jwk (m_data m) = true /\ kb_sig_ok t (m_data m) = true)
  /\ kb_claims t = Some c /\ kc_sd_hash c = kb_digest t
  /\ (forall n, ko_nonce o = Some n -> n = kc_nonce c) /\ (forall a, ko_aud o = Some a -> a = kc_aud c)
  /\ ts_gate (kc_iat c) = true /\ (forall e, ko_earliest o = Some e -> e <= kc_iat c)
  /\ match ko_latest o with Some l => kc_iat c <= l | None => kc_iat c <= now end.
Theorem kb_accept_iff sf now t holder o c : (forall x, sf <> Ok x) ->
  validate_kb_with sf now t holder o = Ok c <-> kb_accept now t holder o c.
Proof. intros Hsf. unfold validate_kb_with, kb_accept. split.
  - destruct (kb_present t); cbn [negb]; [|discriminate]. destruct (kb_sd_ok t); cbn [negb]; [|discriminate]. destruct (kb_decodes t); cbn [negb]; [|discriminate].
    destruct (kb_typ t) as [ty|]; [|discriminate]. destruct (ty =? KB_TYP) eqn:Et; cbn [negb]; [|discriminate]. apply Z.eqb_eq in Et. subst ty.
    destruct (match ko_method_id o with Some u => inl u | None => match kb_kid t with KidAbsent => inr KKidMissing | KidUnparsable => inr KKidParse | Kid u => inl u end end) as [u|e] eqn:Eu; [|discriminate].
    destruct (resolve_method holder (query_of_url u) (ko_scope o)) as [m|] eqn:Er; [|discriminate].
    destruct (is_jwk (m_data m)) eqn:Ej; cbn [negb]; [|discriminate]. destruct (kb_sig_ok t (m_data m)) eqn:Es; cbn [negb]; [|intros H; exfalso; apply (Hsf c); exact H].
    destruct (kb_claims t) as [c'|]; [|discriminate]. destruct (kc_sd_hash c' =? kb_digest t) eqn:Ed; cbn [negb]; [|discriminate]. apply Z.eqb_eq in Ed.
    destruct (match ko_nonce o with Some n => n =? kc_nonce c' | None => true end) eqn:En; cbn [negb]; [|discriminate].
    destruct (match ko_aud o with Some a => a =? kc_aud c' | None => true end) eqn:Ea; cbn [negb]; [|discriminate].
    destruct (ts_gate (kc_iat c')) eqn:Eg; cbn [negb]; [|discriminate].
    destruct (match ko_earliest o with Some e => e <=? kc_iat c' | None => true end) eqn:Ee; cbn [negb]; [|discriminate].
    intros H.
    assert (Hc : c' = c /\ match ko_latest o with Some l => kc_iat c' <= l | None => kc_iat c' <= now end).
    { destruct (ko_latest o) as [l|]; [destruct (kc_iat c' <=? l) eqn:El|destruct (kc_iat c' <=? now) eqn:El]; try discriminate H; injection H as <-; split; try reflexivity; apply Z.leb_le; exact El. }
    destruct Hc as [-> Hl]. repeat split; try reflexivity; try assumption.
    + exists u, m. repeat split; try assumption. destruct (ko_method_id o) as [u'|]; [injection Eu as <-; reflexivity|]. destruct (kb_kid t); try discriminate Eu. injection Eu as <-. reflexivity.
    + intros n Hn. rewrite Hn in En. apply Z.eqb_eq in En. exact En.
    + intros a Ha. rewrite Ha in Ea. apply Z.eqb_eq in Ea. exact Ea.
    + intros e He. rewrite He in Ee. apply Z.leb_le in Ee. exact Ee.
  - intros [H1 [H2 [H3 [H4 [[u [m [Hu [Hr [Hj Hs]]]]] [Hc [Hd [Hn [Ha [Hg [He Hl]]]]]]]]]]].
    rewrite H1, H2, H3, H4, Z.eqb_refl. cbn [negb].
    assert (Eu : (match ko_method_id o with Some u => inl u | None => match kb_kid t with KidAbsent => inr KKidMissing | KidUnparsable => inr KKidParse | Kid u => inl u end end) = inl u).
    { destruct (ko_method_id o) as [u'|]; [injection Hu as <-; reflexivity|]. destruct (kb_kid t); try discriminate Hu. injection Hu as <-. reflexivity. }
    rewrite Eu, Hr, Hj. cbn [negb]. rewrite Hs, Hc. cbn [negb]. rewrite Hd, Z.eqb_refl. cbn [negb].
    assert (En : (match ko_nonce o with Some n => n =? kc_nonce c | None => true end) = true) by (destruct (ko_nonce o) as [n|]; [rewrite (Hn n eq_refl); apply Z.eqb_refl|reflexivity]).
    assert (Ea : (match ko_aud o with Some a => a =? kc_aud c | None => true end) = true) by (destruct (ko_aud o) as [a|]; [rewrite (Ha a eq_refl); apply Z.eqb_refl|reflexivity]).
    assert (Ee : (match ko_earliest o with Some e => e <=? kc_iat c | None => true end) = true) by (destruct (ko_earliest o) as [e|]; [apply Z.leb_le; apply He; reflexivity|reflexivity]).
    rewrite En, Ea, Hg, Ee. cbn [negb].
    destruct (ko_latest o) as [l|]; apply Z.leb_le in Hl; rewrite Hl; reflexivity. Qed.
Theorem kb_accept_iff_fixed now t holder o c : validate_kb now t holder o = Ok c <-> kb_accept now t holder o c.
Proof. apply kb_accept_iff. intros x H. discriminate H. Qed.
Theorem kb_never_panics now t holder o : validate_kb now t holder o <> Panic.
Proof. unfold validate_kb, validate_kb_with.
  destruct (kb_present t); cbn [negb]; [|discriminate]. destruct (kb_sd_ok t); cbn [negb]; [|discriminate]. destruct (kb_decodes t); cbn [negb]; [|discriminate].
  destruct (kb_typ t) as [ty|]; [|discriminate]. destruct (ty =? KB_TYP); cbn [negb]; [|discriminate].
  destruct (match ko_method_id o with Some u => inl u | None => match kb_kid t with KidAbsent => inr KKidMissing | KidUnparsable => inr KKidParse | Kid u => inl u end end) as [u|e]; [|discriminate].
  destruct (resolve_method holder (query_of_url u) (ko_scope o)) as [m|]; [|discriminate].
  destruct (is_jwk (m_data m)); cbn [negb]; [|discriminate]. destruct (kb_sig_ok t (m_data m)); cbn [negb]; [|discriminate].
  destruct (kb_claims t) as [c|]; [|discriminate]. destruct (kc_sd_hash c =? kb_digest t); cbn [negb]; [|discriminate].
  destruct (match ko_nonce o with Some n => n =? kc_nonce c | None => true end); cbn [negb]; [|discriminate].
  destruct (match ko_aud o with Some a => a =? kc_aud c | None => true end); cbn [negb]; [|discriminate].
  destruct (ts_gate (kc_iat c)); cbn [negb]; [|discriminate].
  destruct (match ko_earliest o with Some e => e <=? kc_iat c | None => true end); cbn [negb]; [|discriminate].
  destruct (ko_latest o) as [l|]; [destruct (kc_iat c <=? l)|destruct (kc_iat c <=? now)]; discriminate. Qed.
(* the pinned tree panicked on a key-binding JWT whose signature does not verify *)
Definition ex_holder : doc := {| d_vm := [{| m_id := {| u_did := 1; u_rest := 0; u_frag := Some 0 |}; m_data := 10 |}]; d_rels := fun _ => []; d_svc := [] |}.
Definition ex_kb : kbtoken :=
  {| kb_present := true; kb_sd_ok := true; kb_digest := 5; kb_decodes := true; kb_typ := Some KB_TYP; kb_kid := Kid {| u_did := 1; u_rest := 0; u_frag := Some 0 |};
     kb_sig_ok := fun k => k =? 99; kb_claims := Some {| kc_sd_hash := 5; kc_nonce := 1; kc_aud := 1; kc_iat := 0 |} |}.
Definition ex_ko : kbopts := {| ko_nonce := None; ko_aud := None; ko_method_id := None; ko_scope := None; ko_earliest := None; ko_latest := None |}.
Theorem kb_pinned_panics : validate_kb_pinned 0 ex_kb ex_holder ex_ko = Panic /\ validate_kb 0 ex_kb ex_holder ex_ko = Err KSignature.
Proof. split; vm_compute; reflexivity. Qed.

(* what can never be accepted, in the words of the statement: a key-binding JWT made for another
   presentation of the disclosures (digest), another verifier request (nonce), another audience, or
   issued in the future - whatever else holds *)
Ltac kb_destruct H :=
  apply kb_accept_iff_fixed in H;
  destruct H as [_ [_ [_ [_ [_ [Hc [Hd [Hn [Ha [_ [_ Hl]]]]]]]]]]].
Theorem kb_accepted_is_claims now t holder o c : validate_kb now t holder o = Ok c -> kb_claims t = Some c.
Proof. intros H. kb_destruct H. exact Hc. Qed.
Theorem kb_other_digest_rejected now t holder o c c' :
  kb_claims t = Some c -> kc_sd_hash c <> kb_digest t -> validate_kb now t holder o <> Ok c'.
Proof. intros E N H. kb_destruct H. rewrite E in Hc. inversion Hc; subst c'. contradiction. Qed.
Theorem kb_other_nonce_rejected now t holder o c c' n :
  kb_claims t = Some c -> ko_nonce o = Some n -> n <> kc_nonce c -> validate_kb now t holder o <> Ok c'.
Proof. intros E En N H. kb_destruct H. rewrite E in Hc. inversion Hc; subst c'. apply N, Hn, En. Qed.
Theorem kb_other_audience_rejected now t holder o c c' a :
  kb_claims t = Some c -> ko_aud o = Some a -> a <> kc_aud c -> validate_kb now t holder o <> Ok c'.
Proof. intros E Ea N H. kb_destruct H. rewrite E in Hc. inversion Hc; subst c'. apply N, Ha, Ea. Qed.
Theorem kb_future_rejected now t holder o c c' :
  kb_claims t = Some c -> ko_latest o = None -> now < kc_iat c -> validate_kb now t holder o <> Ok c'.
Proof. intros E El N H. kb_destruct H. rewrite E in Hc. inversion Hc; subst c'. rewrite El in Hl. lia. Qed.
