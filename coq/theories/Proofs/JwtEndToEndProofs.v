(* JwkDocumentExt::create_credential_jwt end to end: Credential::serialize_jwt (C07's to_claims + serde flattening), the storage-backed
   create_jws (C08's header assembly + compact encoder), then the library's own decoder and the validator's decoding of the claims.
   JSON text is an oracle pair (js / jp) that agrees with the structured serde model `reparse` of C07. *)
From Coq Require Import List NArith ZArith Bool.
From IdV Require Import Lib.Outcome Lib.Base64 Proofs.Base64Proofs Jose.Header Jose.Policy Proofs.PolicyProofs Jose.Jws Proofs.JwsProofs Cred.Claims Proofs.ClaimsProofs.
Import ListNotations.

Lemma jwt_opts_ok_spec o : jwt_opts_ok o = true -> so_detached o = false /\ so_b64 o <> Some false.
Proof. unfold jwt_opts_ok. intros E. apply andb_true_iff in E. destruct E as [A B]. split; [destruct (so_detached o); [discriminate|reflexivity]|]. intros C. rewrite C in B. discriminate. Qed.

Section EndToEnd.
  Variable H : Type.
  Variable hview : H -> hdr.
  Variable parse_header : list N -> option H.
  Variable ser_header : H -> list N.
  Hypothesis parse_ser : forall h, parse_header (ser_header h) = Some h.
  Hypothesis ser_bytes : forall h, Forall byte_ok (ser_header h).
  (* the JSON text of a claims set with its custom claims, and what serde_json reads back from it *)
  Variable js : claims -> custom -> list N.
  Variable jp : list N -> option (claims * custom).
  Hypothesis jp_js : forall k cu, jp (js k cu) = reparse k cu.
  Hypothesis js_bytes : forall k cu, Forall byte_ok (js k cu) /\ js k cu <> [].

  Theorem credential_jwt_roundtrip c cu o h sg :
    cred_wf c = true -> custom_ok cu = true ->
    hview h = create_jws_header o -> jwt_opts_ok o = true -> Forall byte_ok sg ->
    exists e, enc_compact_new H hview ser_header (js (to_claims c) cu) h (Some 0%N) = Ok e /\
      exists it, decode_compact H hview parse_header (compact_into_jws e sg) None = Ok it
        /\ it_protected H it = Some h /\ it_sig H it = sg /\ it_si H it = ce_si e
        /\ exists k, jp (it_claims H it) = Some (k, cu) /\ from_claims k = ROk c.
  Proof.
    intros Wc Wcu Hv Hok Fs. apply jwt_opts_ok_spec in Hok. destruct Hok as [Hd Hb]. destruct (js_bytes (to_claims c) cu) as [Fp Pne].
    destruct (create_jws_roundtrip H hview parse_header ser_header parse_ser ser_bytes o h (js (to_claims c) cu) sg Hv Fp Fs Pne) as [e [En D]].
    { intros _ Hb'. congruence. }
    rewrite Hd in En, D. exists e. split; [exact En|]. cbv zeta in D. destruct D as [it [Dc [Hp [_ [Hsi [Hsg Hcl]]]]]].
    exists it. repeat split; try assumption. rewrite Hcl, jp_js.
    pose proof (cred_roundtrip_ok c cu Wc Wcu) as R. unfold cred_roundtrip in R. destruct (reparse (to_claims c) cu) as [[k cu']|]; [|discriminate].
    injection R as R1 R2. subst cu'. exists k. split; [reflexivity|exact R1].
  Qed.
  (* JwkDocumentExt::create_presentation_jwt: same composition over Presentation::serialize_jwt *)
  Variable pjs : pclaims -> custom -> list N.
  Variable pjp : list N -> option (pclaims * custom).
  Hypothesis pjp_pjs : forall k cu, pjp (pjs k cu) = preparse k cu.
  Hypothesis pjs_bytes : forall k cu, Forall byte_ok (pjs k cu) /\ pjs k cu <> [].

  Theorem presentation_jwt_roundtrip p po cu o h sg :
    popts_wf po = true -> pcustom_ok cu = true ->
    hview h = create_jws_header o -> jwt_opts_ok o = true -> Forall byte_ok sg ->
    exists e, enc_compact_new H hview ser_header (pjs (to_pclaims p po) cu) h (Some 0%N) = Ok e /\
      exists it, decode_compact H hview parse_header (compact_into_jws e sg) None = Ok it
        /\ it_protected H it = Some h /\ it_sig H it = sg /\ it_si H it = ce_si e
        /\ exists k, pjp (it_claims H it) = Some (k, cu)
             /\ from_pclaims k = ROk {| d_pres := p; d_expires := o_expires po; d_issued := o_issued po; d_aud := o_aud po |}.
  Proof.
    intros Wo Wcu Hv Hok Fs. apply jwt_opts_ok_spec in Hok. destruct Hok as [Hd Hb]. destruct (pjs_bytes (to_pclaims p po) cu) as [Fp Pne].
    destruct (create_jws_roundtrip H hview parse_header ser_header parse_ser ser_bytes o h (pjs (to_pclaims p po) cu) sg Hv Fp Fs Pne) as [e [En D]].
    { intros _ Hb'. congruence. }
    rewrite Hd in En, D. exists e. split; [exact En|]. cbv zeta in D. destruct D as [it [Dc [Hp [_ [Hsi [Hsg Hcl]]]]]].
    exists it. repeat split; try assumption. rewrite Hcl, pjp_pjs.
    pose proof (pres_roundtrip_ok p po cu Wo Wcu) as R. unfold pres_roundtrip in R. destruct (preparse (to_pclaims p po) cu) as [[k cu']|]; [|discriminate].
    injection R as R1 R2. subst cu'. exists k. split; [reflexivity|exact R1].
  Qed.
End EndToEnd.
