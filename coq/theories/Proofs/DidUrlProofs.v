(* C10, DID URLs: for every byte string without a percent sign (outside the known class K_pct of the
   third-party parser) an accepted DID URL is reproduced VERBATIM by its string form, and its components
   re-concatenate to the input.  The proof inverts the whole third-party offset computation. *)
From Coq Require Import List NArith Bool Arith Lia.
From IdV Require Import Lib.Outcome Did.DidParse Proofs.DidProofs.
Import ListNotations.
Open Scope N_scope.

Definition no_pct (l : list N) : bool := negb (existsb (N.eqb 37) l).

Lemma no_pct_cons c l : no_pct (c :: l) = true -> (c =? 37) = false /\ no_pct l = true.
Proof.
  unfold no_pct. cbn [existsb]. rewrite negb_orb, andb_true_iff, negb_true_iff. rewrite N.eqb_sym. tauto.
Qed.
Lemma no_pct_app a b : no_pct (a ++ b) = true <-> no_pct a = true /\ no_pct b = true.
Proof. unfold no_pct. rewrite existsb_app, negb_orb, andb_true_iff. tauto. Qed.

(* without a percent sign the third-party loop is the plain loop *)
Lemma loop_no_pct stop ok l : no_pct l = true -> tp_loop stop ok l = tp_loop_plain stop ok l.
Proof.
  induction l as [|c r IH]; intros H; [reflexivity|]. apply no_pct_cons in H as [H1 H2].
  cbn [tp_loop tp_loop_plain]. rewrite H1, (IH H2). reflexivity.
Qed.

Lemma plain_loop_split stop ok l : forall n, tp_loop_plain stop ok l = Some n ->
  exists a b, l = a ++ b /\ length a = n /\ forallb ok a = true /\ existsb stop a = false
              /\ (b = [] \/ exists c r, b = c :: r /\ stop c = true).
Proof.
  induction l as [|c r IH]; intros n H; cbn [tp_loop_plain] in H.
  - inversion H. exists [], []. repeat split; auto.
  - destruct (stop c) eqn:Es.
    + inversion H. exists [], (c :: r). repeat split; auto. right. eauto.
    + destruct (ok c) eqn:Eo; [|discriminate].
      destruct (tp_loop_plain stop ok r) as [k|] eqn:L; [|discriminate]. inversion H; subst n; clear H.
      destruct (IH k eq_refl) as [a [b [E [La [Fa [Sa Hb]]]]]].
      exists (c :: a), b. subst r. cbn [app length forallb existsb]. rewrite Eo, Fa, Es, Sa, La. repeat split; auto.
Qed.

Lemma skipn_exact {A} (a b : list A) : skipn (length a) (a ++ b) = b.
Proof. induction a as [|x a IH]; [reflexivity|exact IH]. Qed.
Lemma firstn_exact {A} (a b : list A) : firstn (length a) (a ++ b) = a.
Proof. induction a as [|x a IH]; [reflexivity|cbn [length app firstn]; rewrite IH; reflexivity]. Qed.

Definition optpre (c : N) (o : option (list N)) : list N := match o with Some x => c :: x | None => [] end.
Definition olen (o : option (list N)) : nat := match o with Some x => S (length x) | None => O end.

(* full inversion of the offset computation on a percent-free text *)
Lemma offsets_full d c : no_pct d = true -> tp_parse_offsets d = Ok c ->
  exists m i p oq of,
    d = [100; 105; 100; 58] ++ m ++ [58] ++ i ++ p ++ optpre 63 oq ++ optpre 35 of
    /\ o_method c = 3%nat /\ o_mid c = (4 + length m)%nat /\ o_path c = (5 + length m + length i)%nat
    /\ o_query c = match oq with Some _ => Some (5 + length m + length i + length p)%nat | None => None end
    /\ o_frag c = match of with Some _ => Some (5 + length m + length i + length p + olen oq)%nat | None => None end.
Proof.
  unfold tp_parse_offsets. intros NP H.
  destruct d as [|a [|b [|c0 r0]]]; try discriminate.
  destruct ((a =? 100) && (b =? 105) && (c0 =? 100)) eqn:E; cbn [negb] in H; [|discriminate].
  apply andb_prop in E as [E E3]. apply andb_prop in E as [E1 E2].
  apply N.eqb_eq in E1, E2, E3. subst.
  destruct r0 as [|col r1]; [discriminate|].
  destruct (is_colon col) eqn:Ec; cbn [negb] in H; [|discriminate].
  unfold is_colon in Ec. apply N.eqb_eq in Ec. subst col.
  assert (no_pct r1 = true) as NP1.
  { change (100 :: 105 :: 100 :: 58 :: r1) with ([100; 105; 100; 58] ++ r1) in NP. apply no_pct_app in NP. tauto. }
  destruct (tp_loop_plain is_colon char_method r1) as [n1|] eqn:L1; [|discriminate].
  destruct (plain_loop_split _ _ _ _ L1) as [m [b1 [Er1 [Lm [_ [_ _]]]]]]. subst r1 n1.
  rewrite skipn_exact in H.
  destruct b1 as [|col2 r2]; [discriminate|].
  destruct (is_colon col2) eqn:Ec2; cbn [negb] in H; [|discriminate].
  unfold is_colon in Ec2. apply N.eqb_eq in Ec2. subst col2.
  assert (no_pct r2 = true) as NP2.
  { apply no_pct_app in NP1 as [_ X]. change (58 :: r2) with ([58] ++ r2) in X. apply no_pct_app in X. tauto. }
  rewrite (loop_no_pct _ _ _ NP2) in H.
  destruct (tp_loop_plain stop_mid char_method_id r2) as [n2|] eqn:L2; [|discriminate].
  destruct (plain_loop_split _ _ _ _ L2) as [i [r3 [Er2 [Li [_ [_ Hr3]]]]]]. subst r2 n2.
  rewrite skipn_exact in H.
  assert (no_pct r3 = true) as NP3 by (apply no_pct_app in NP2; tauto).
  (* parse_path: r3 = p ++ r4 *)
  assert ((exists p r4 n3,
            (match r3 with [] => Some O | c3 :: _ => if stop_path c3 then Some O else tp_loop stop_path char_path r3 end) = Some n3
            /\ r3 = p ++ r4 /\ length p = n3 /\ (r4 = [] \/ exists c4 r4', r4 = c4 :: r4' /\ stop_path c4 = true))
          \/ (match r3 with [] => Some O | c3 :: _ => if stop_path c3 then Some O else tp_loop stop_path char_path r3 end) = None) as HP.
  { destruct r3 as [|c3 r3']; [left; exists [], [], O; repeat split; auto|].
    destruct (stop_path c3) eqn:S3; [left; exists [], (c3 :: r3'), O; repeat split; auto; right; eauto|].
    rewrite (loop_no_pct _ _ _ NP3).
    destruct (tp_loop_plain stop_path char_path (c3 :: r3')) as [n3|] eqn:L3; [|right; reflexivity].
    destruct (plain_loop_split _ _ _ _ L3) as [p [r4 [E3 [Lp [_ [_ H4]]]]]]. left. exists p, r4, n3. repeat split; auto. }
  destruct HP as [[p [r4 [n3 [Ep [Er3 [Lp Hr4]]]]]]|Ep]; rewrite Ep in H; [|discriminate].
  subst r3 n3. rewrite skipn_exact in H.
  assert (no_pct r4 = true) as NP4 by (apply no_pct_app in NP3; tauto).
  assert (forall oq of, 100 :: 105 :: 100 :: 58 :: m ++ 58 :: i ++ p ++ optpre 63 oq ++ optpre 35 of
                        = [100; 105; 100; 58] ++ m ++ [58] ++ i ++ p ++ optpre 63 oq ++ optpre 35 of) as Shape by reflexivity.
  destruct r4 as [|c4 r4'].
  - inversion H; subst c; clear H. exists m, i, p, None, None. cbn [optpre olen o_method o_mid o_path o_query o_frag].
    rewrite !app_nil_r. repeat split; auto; lia.
  - destruct (c4 =? 35) eqn:E35.
    + (* no query, fragment follows *)
      apply N.eqb_eq in E35. subst c4. cbn [negb N.eqb] in H. change (35 =? 35) with true in H. cbn [negb] in H.
      destruct (tp_loop stop_none char_query r4') as [n5|] eqn:L5; [|discriminate].
      inversion H; subst c; clear H. exists m, i, p, None, (Some r4'). cbn [optpre olen o_method o_mid o_path o_query o_frag].
      repeat split; auto; try lia. f_equal. lia.
    + destruct (c4 =? 63) eqn:E63; [|discriminate].
      apply N.eqb_eq in E63. subst c4.
      assert (no_pct r4' = true) as NP4' by (change (63 :: r4') with ([63] ++ r4') in NP4; apply no_pct_app in NP4; tauto).
      rewrite (loop_no_pct _ _ _ NP4') in H.
      destruct (tp_loop_plain stop_query char_query r4') as [n4|] eqn:L4; [|discriminate].
      destruct (plain_loop_split _ _ _ _ L4) as [q [r5 [E4 [Lq [_ [_ H5]]]]]]. subst r4' n4.
      rewrite skipn_exact in H.
      destruct r5 as [|c5 r5'].
      * inversion H; subst c; clear H. exists m, i, p, (Some q), None. cbn [optpre olen o_method o_mid o_path o_query o_frag].
        rewrite !app_nil_r. repeat split; auto; try lia. f_equal. lia.
      * destruct (c5 =? 35) eqn:E5; cbn [negb] in H; [|discriminate]. apply N.eqb_eq in E5. subst c5.
        destruct (tp_loop stop_none char_query r5') as [n5|]; [|discriminate].
        inversion H; subst c; clear H. exists m, i, p, (Some q), (Some r5'). cbn [optpre olen o_method o_mid o_path o_query o_frag].
        repeat split; auto; try lia; f_equal; lia.
Qed.

Lemma slice_mid (a b c : list N) x y : x = length a -> y = (length a + length b)%nat -> slice (a ++ b ++ c) x y = Ok b.
Proof.
  intros -> ->. unfold slice. rewrite !app_length.
  replace ((length a + length b <=? length a + (length b + length c))%nat) with true by (symmetry; apply Nat.leb_le; lia).
  replace ((length a <=? length a + length b)%nat) with true by (symmetry; apply Nat.leb_le; lia).
  cbn [andb]. rewrite skipn_exact. replace (length a + length b - length a)%nat with (length b) by lia.
  rewrite firstn_exact. reflexivity.
Qed.
Lemma slice_end (a b : list N) x : x = length a -> slice_from (a ++ b) x = Ok b.
Proof.
  intros ->. unfold slice_from. rewrite <- (app_nil_r b) at 1. rewrite (slice_mid a b []); [reflexivity|reflexivity|].
  rewrite !app_length. cbn [length]. lia.
Qed.

(* the setters on components handed over with their delimiter *)
Lemma set_path_ok p up : set_path (Some p) = Ok up -> oapp up = p.
Proof.
  unfold set_path. destruct p as [|c r]; [intros H; inversion H; reflexivity|].
  destruct ((c =? 47) && valid_seg char_path (c :: r)); [|discriminate]. intros H; inversion H. reflexivity.
Qed.
Lemma set_query_ok oq uq : set_query (match oq with Some x => Some (63 :: x) | None => None end) = Ok uq -> oapp uq = optpre 63 oq.
Proof.
  destruct oq as [q|]; [|intros H; inversion H; reflexivity].
  unfold set_query. change (strip1 63 (63 :: q)) with q.
  destruct (is_nil q || negb (valid_seg char_query q)); [discriminate|]. intros H; inversion H. reflexivity.
Qed.
Lemma set_fragment_ok of uf : set_fragment (match of with Some x => Some (35 :: x) | None => None end) = Ok uf -> oapp uf = optpre 35 of.
Proof.
  destruct of as [f|]; [|intros H; inversion H; reflexivity].
  unfold set_fragment. change (strip1 35 (35 :: f)) with f.
  destruct (is_nil f || negb (valid_seg char_query f)); [discriminate|]. intros H; inversion H. reflexivity.
Qed.

Theorem did_url_verbatim s u : no_pct s = true -> did_url_parse s = Ok u ->
  did_url_to_string u = s
  /\ u_did u = [100; 105; 100; 58] ++ u_method u ++ [58] ++ u_mid u
  /\ s = [100; 105; 100; 58] ++ u_method u ++ [58] ++ u_mid u ++ oapp (u_path u) ++ oapp (u_query u) ++ oapp (u_frag u).
Proof.
  unfold did_url_parse. intros NP H.
  destruct (list_eqb (trim s) s) eqn:T; cbn [negb] in H; [|discriminate]. apply list_eqb_eq in T.
  apply obind_ok in H as [c [P H]].
  unfold tp_parse in P. rewrite T in P. apply obind_ok in P as [c0 [Po P]].
  apply obind_ok in P as [m0 [_ P]]. destruct (match m0 with [] => true | _ => false end); [discriminate|].
  apply obind_ok in P as [i0 [_ P]]. destruct (match i0 with [] => true | _ => false end); [discriminate|].
  inversion P; subst c0; clear P m0 i0.
  destruct (offsets_full s c NP Po) as [m [i [p [oq [of [Es [Om [Oi [Op [Oq Of]]]]]]]]]].
  (* the component slices *)
  assert (tp_path s c = Ok p) as Hp.
  { unfold tp_path. rewrite Oq, Of, Op, Es.
    replace ([100; 105; 100; 58] ++ m ++ [58] ++ i ++ p ++ optpre 63 oq ++ optpre 35 of)
      with (([100; 105; 100; 58] ++ m ++ [58] ++ i) ++ p ++ (optpre 63 oq ++ optpre 35 of)) by (rewrite <- !app_assoc; reflexivity).
    destruct oq as [q|], of as [f|]; try (apply slice_mid; rewrite !app_length; cbn [length olen]; lia).
    rewrite slice_end; [cbn [optpre]; rewrite !app_nil_r; reflexivity|]. rewrite !app_length; cbn [length]; lia. }
  assert (tp_query s c = Ok oq) as Hq.
  { unfold tp_query. rewrite Oq, Of. destruct oq as [q|]; [|reflexivity]. rewrite Es.
    replace ([100; 105; 100; 58] ++ m ++ [58] ++ i ++ p ++ optpre 63 (Some q) ++ optpre 35 of)
      with (([100; 105; 100; 58] ++ m ++ [58] ++ i ++ p ++ [63]) ++ q ++ optpre 35 of)
      by (rewrite <- !app_assoc; cbn [optpre app]; reflexivity).
    destruct of as [f|].
    - rewrite (slice_mid _ q _); [reflexivity| |]; rewrite !app_length; cbn [length olen]; lia.
    - cbn [optpre]. rewrite app_nil_r. rewrite slice_end; [reflexivity|]. rewrite !app_length; cbn [length]; lia. }
  assert (tp_fragment s c = Ok of) as Hf.
  { unfold tp_fragment. rewrite Of. destruct of as [f|]; [|reflexivity]. rewrite Es.
    replace ([100; 105; 100; 58] ++ m ++ [58] ++ i ++ p ++ optpre 63 oq ++ optpre 35 (Some f))
      with (([100; 105; 100; 58] ++ m ++ [58] ++ i ++ p ++ optpre 63 oq ++ [35]) ++ f)
      by (rewrite <- !app_assoc; cbn [optpre app]; reflexivity).
    rewrite slice_end; [reflexivity|]. rewrite !app_length. cbn [length]. destruct oq; cbn [optpre olen length]; lia. }
  rewrite Hp in H. cbn [obind] in H.
  apply obind_ok in H as [up [Sp H]]. rewrite Hq in H. cbn [obind] in H.
  apply obind_ok in H as [uq [Sq H]]. rewrite Hf in H. cbn [obind] in H.
  apply obind_ok in H as [uf [Sf H]].
  apply obind_ok in H as [[m' i'] [V H]]. inversion H; subst u; clear H.
  unfold did_url_to_string. cbn [u_did u_method u_mid u_path u_query u_frag fst snd].
  rewrite (set_path_ok _ _ Sp), (set_query_ok _ _ Sq), (set_fragment_ok _ _ Sf).
  (* the base DID *)
  assert (firstn (o_path c) s = [100; 105; 100; 58] ++ m ++ [58] ++ i) as Hb.
  { rewrite Op, Es.
    replace ([100; 105; 100; 58] ++ m ++ [58] ++ i ++ p ++ optpre 63 oq ++ optpre 35 of)
      with (([100; 105; 100; 58] ++ m ++ [58] ++ i) ++ (p ++ optpre 63 oq ++ optpre 35 of)) by (rewrite <- !app_assoc; reflexivity).
    replace (5 + length m + length i)%nat with (length ([100; 105; 100; 58] ++ m ++ [58] ++ i)) by (rewrite !app_length; cbn [length]; lia).
    apply firstn_exact. }
  rewrite Hb in *.
  unfold check_validity in V. cbn [o_method o_mid o_path o_query o_frag] in V.
  apply obind_ok in V as [m1 [Vm V]].
  destruct (valid_method_name m1); cbn [negb] in V; [|discriminate].
  apply obind_ok in V as [i1 [Vi V]].
  destruct (valid_method_id i1); cbn [negb] in V; [|discriminate].
  apply obind_ok in V as [p1 [_ V]]. apply obind_ok in V as [f1 [_ V]]. apply obind_ok in V as [q1 [_ V]].
  destruct (negb (is_nil p1) || _ || _); [discriminate|]. inversion V; subst m1 i1; clear V.
  assert (m' = m) as ->.
  { unfold tp_method in Vm. cbn [o_method o_mid] in Vm. rewrite Om, Oi in Vm.
    rewrite (slice_mid [100; 105; 100; 58] m ([58] ++ i)) in Vm; [inversion Vm; reflexivity|reflexivity|cbn [length]; lia]. }
  assert (i' = i) as ->.
  { unfold tp_method_id in Vi. cbn [o_mid o_path] in Vi. rewrite Oi, Op in Vi.
    replace ([100; 105; 100; 58] ++ m ++ [58] ++ i) with (([100; 105; 100; 58] ++ m ++ [58]) ++ i ++ []) in Vi
      by (rewrite app_nil_r, <- !app_assoc; reflexivity).
    rewrite (slice_mid _ i []) in Vi; [inversion Vi; reflexivity| |]; rewrite !app_length; cbn [length]; lia. }
  split; [|split; [reflexivity|]].
  - rewrite Es, <- !app_assoc. reflexivity.
  - exact Es.
Qed.

(* the whitespace guard (fix 358acae): an accepted DID URL has no surrounding blanks or control characters *)
Theorem did_url_trimmed s u : did_url_parse s = Ok u -> trim s = s.
Proof.
  unfold did_url_parse. intros H. destruct (list_eqb (trim s) s) eqn:T; cbn [negb] in H; [|discriminate].
  apply list_eqb_eq. exact T.
Qed.

(* the tree before fix 358acae: the same function without the guard accepts "  did:a:b?q" and prints
   "  did:a?b?q" (finding reproduced on the real code, then repaired) *)
Definition did_url_parse_unguarded (data : list N) : outcome did_url did_err :=
  obind (tp_parse data) (fun c =>
  obind (tp_path data c) (fun p =>
  obind (set_path (Some p)) (fun up =>
  obind (tp_query data c) (fun q =>
  obind (set_query (match q with Some x => Some (63 :: x) | None => None end)) (fun uq =>
  obind (tp_fragment data c) (fun f =>
  obind (set_fragment (match f with Some x => Some (35 :: x) | None => None end)) (fun uf =>
  let base := firstn (o_path c) data in
  let cb := {| o_method := o_method c; o_mid := o_mid c; o_path := o_path c; o_query := None; o_frag := None |} in
  obind (check_validity base cb) (fun mi =>
  Ok {| u_did := base; u_method := fst mi; u_mid := snd mi; u_path := up; u_query := uq; u_frag := uf |})))))))).
Theorem did_url_unguarded_refuted :
  exists s u, no_pct s = true /\ did_url_parse_unguarded s = Ok u /\ did_url_to_string u <> s.
Proof.
  exists [32; 32; 100; 105; 100; 58; 97; 58; 98; 63; 113]. eexists. split; [reflexivity|]. split; [vm_compute; reflexivity|].
  vm_compute. discriminate.
Qed.
