(* Model of identity_resolver::Resolver (resolver.rs, commands.rs): dispatch by DID method, and
   resolve_multiple over a set of distinct DIDs whose handler futures complete in an arbitrary order
   (FuturesUnordered + try_collect: results are consumed in completion order, the first error aborts). *)
From Coq Require Import List ZArith Bool.
From IdV Require Import Doc.Doc.
Import ListNotations.
Open Scope Z_scope.

Record rdid := { r_method : Z; r_idn : Z }.
Definition rdid_eqb (a b : rdid) : bool := (r_method a =? r_method b) && (r_idn a =? r_idn b).

Inductive rerr := EUnsupported | EParse | EHandler.
Inductive rres := ROk (doc : Z) | RErr (e : rerr).

Section Resolver.
  (* command_map: method -> handler id (HashMap: at most one handler per method) *)
  Variable table : list (Z * Z).
  (* the handler's DID type accepts this DID (D::try_from(&str)); and what the handler answers *)
  Variable accepts : Z -> rdid -> bool.
  Variable answer : Z -> rdid -> option Z.       (* None = the handler returns an error *)

  Definition lookup (m : Z) : option Z :=
    match find (fun e => fst e =? m) table with Some e => Some (snd e) | None => None end.

  (* resolve: result and the log of handler invocations (handler id, DID) *)
  Definition resolve (d : rdid) : rres * list (Z * rdid) :=
    match lookup (r_method d) with
    | None => (RErr EUnsupported, [])
    | Some h => if accepts h d
                then (match answer h d with Some doc => ROk doc | None => RErr EHandler end, [(h, d)])
                else (RErr EParse, [])
    end.

  (* HashSet de-duplication (order irrelevant: the completion order is a parameter) *)
  Fixpoint dedup (l : list rdid) : list rdid :=
    match l with
    | [] => []
    | d :: r => if existsb (rdid_eqb d) r then dedup r else d :: dedup r
    end.

  (* try_collect over the completion order *)
  Fixpoint collect (order : list rdid) : (list (rdid * Z)) + rerr :=
    match order with
    | [] => inl []
    | d :: r => match fst (resolve d) with
                | RErr e => inr e
                | ROk doc => match collect r with inl l => inl ((d, doc) :: l) | inr e => inr e end
                end
    end.
  (* order: a permutation of dedup dids, chosen by the scheduler *)
  Definition resolve_multiple (order : list rdid) := collect order.
End Resolver.

(* Resolver::attach_handler: command_map.insert(method, handler) - a later attachment for the same
   method replaces the earlier one.  The table is the attachment history, newest first, read by
   `lookup` from the front. *)
Definition attach_handler (t : list (Z * Z)) (m h : Z) : list (Z * Z) := (m, h) :: t.
Definition table_of (hist : list (Z * Z)) : list (Z * Z) :=
  fold_left (fun t e => attach_handler t (fst e) (snd e)) hist [].

(* CoreDocument::expand_did_jwk: one verification method #0 carrying the key encoded in the DID,
   referenced from assertionMethod, authentication, capabilityInvocation, capabilityDelegation *)
Definition jwk_method_id (did : Z) : url := {| u_did := did; u_rest := 0; u_frag := Some 0 |}.
Definition expand_did_jwk (did key : Z) : doc :=
  {| d_vm := [{| m_id := jwk_method_id did; m_data := key |}];
     d_rels := fun r => match r with RKeyAgr => [] | _ => [Refer (jwk_method_id did)] end;
     d_svc := [] |}.
