(* IOTA state-metadata packing (identity_iota_core/src/state_metadata/document.rs) over a document model
   with explicit document id, controllers and method controllers.
   DIDs are numbers; 0 is the reserved PLACEHOLDER_DID did:0:0.
   Collections are the OrderedSets of CoreDocumentData: mapping a collection re-collects it with the
   de-duplicating FromIterator (keep first). CoreDocument::try_map refuses a mapping that merged two
   entries of a method / service collection (repaired tree: see KNOWN_FINDINGS fixed: C14). *)
From Coq Require Import List ZArith Bool Lia.
From IdV Require Import Doc.Doc.
Import ListNotations.
Open Scope Z_scope.

Record smeth := { sm_id : url; sm_ctrl : Z; sm_data : Z }.
Inductive sref := SEmbed (m : smeth) | SRefer (u : url).
Definition sr_id (r : sref) : url := match r with SEmbed m => sm_id m | SRefer u => u end.
Record sdoc := { sd_id : Z; sd_ctrl : list Z; sd_vm : list smeth; sd_rels : list (list sref);
                 sd_svc : list svc; sd_aka : list Z; sd_props : Z }.
Record smeta := { mt_created : Z; mt_updated : Z; mt_deact : Z; mt_gov : Z; mt_sc : Z; mt_props : Z }.   (* -1 = absent *)

(* ---- the deserialisation gate, on the forgetful image in the C04 document model ---- *)
Definition tom (m : smeth) : meth := {| m_id := sm_id m; m_data := sm_data m |}.
Definition tor (r : sref) : mref := match r with SEmbed m => Embed (tom m) | SRefer u => Refer u end.
Definition cic (es : list mref) (vm : list meth) (sv : list svc) : bool :=
  match pass_rels es [] with
  | None => false
  | Some m1 => match pass_vm vm m1 with
               | None => false
               | Some m2 => forallb (fun s => match am_get m2 (s_id s) with Some _ => false | None => true end) sv
               end
  end.
Definition gate (s : sdoc) : bool := cic (map tor (concat (sd_rels s))) (map tom (sd_vm s)) (sd_svc s).

(* ---- mapping DIDs ---- *)
Definition umap (f : Z -> Z) (u : url) : url := {| u_did := f (u_did u); u_rest := u_rest u; u_frag := u_frag u |}.
Definition mmap (f : Z -> Z) (m : smeth) : smeth := {| sm_id := umap f (sm_id m); sm_ctrl := f (sm_ctrl m); sm_data := sm_data m |}.
Definition rmap (f : Z -> Z) (r : sref) : sref := match r with SEmbed m => SEmbed (mmap f m) | SRefer u => SRefer (umap f u) end.
Definition svmap (f : Z -> Z) (s : svc) : svc := {| s_id := umap f (s_id s); s_data := s_data s |}.

(* OrderedSet::from_iter: keep the first of equal keys, keep the order *)
Fixpoint dd {A} (key : A -> url) (l : list A) : list A :=
  match l with [] => [] | x :: r => x :: filter (fun y => negb (ueqb (key y) (key x))) (dd key r) end.
Fixpoint ddz (l : list Z) : list Z :=
  match l with [] => [] | x :: r => x :: filter (fun y => negb (y =? x)) (ddz r) end.

(* the pure renaming: what "rewriting the DIDs" means (controllers are a set of DIDs) *)
Definition rename (f : Z -> Z) (s : sdoc) : sdoc :=
  {| sd_id := f (sd_id s); sd_ctrl := ddz (map f (sd_ctrl s)); sd_vm := map (mmap f) (sd_vm s);
     sd_rels := map (map (rmap f)) (sd_rels s); sd_svc := map (svmap f) (sd_svc s);
     sd_aka := sd_aka s; sd_props := sd_props s |}.
(* CoreDocumentData::try_map with infallible maps: every collection is re-collected *)
Definition map_data (f : Z -> Z) (s : sdoc) : sdoc :=
  {| sd_id := f (sd_id s); sd_ctrl := ddz (map f (sd_ctrl s)); sd_vm := dd sm_id (map (mmap f) (sd_vm s));
     sd_rels := map (fun l => dd sr_id (map (rmap f) l)) (sd_rels s); sd_svc := dd s_id (map (svmap f) (sd_svc s));
     sd_aka := sd_aka s; sd_props := sd_props s |}.
Definition lens (s : sdoc) : list nat := length (sd_vm s) :: length (sd_svc s) :: map (@length sref) (sd_rels s).
Definition lens_eqb (a b : list nat) : bool := if list_eq_dec Nat.eq_dec a b then true else false.

(* ---- pack side: From<IotaDocument> for StateMetadataDocument (map_unchecked) ---- *)
Definition pack_f (self d : Z) : Z := if d =? self then 0 else d.
Definition to_state (s : sdoc) : sdoc := map_data (pack_f (sd_id s)) s.
Definition clear_addr (m : smeta) : smeta :=
  {| mt_created := mt_created m; mt_updated := mt_updated m; mt_deact := mt_deact m; mt_gov := -1; mt_sc := -1; mt_props := mt_props m |}.

(* ---- unpack side: into_iota_document ---- *)
Section Unpack.
Variable iota_valid : Z -> bool.     (* IotaDID::check_validity on a CoreDID (decided by the C17 model; here per DID number) *)
Definition unpack_f (tgt d : Z) : Z := if d =? 0 then tgt else d.
Definition checked (d : Z) : bool := (d =? 0) || iota_valid d.
(* errors: 1 = DIDSyntaxError (id / controller not an IOTA DID), 2 = InvalidDoc (merged entries or id constraints) *)
Definition into_iota (tgt : Z) (st : sdoc) : sdoc + Z :=
  if negb (checked (sd_id st)) then inr 1
  else if negb (forallb checked (sd_ctrl st)) then inr 1
  else let r := map_data (unpack_f tgt) st in
       if negb (lens_eqb (lens r) (lens st)) then inr 2
       else if gate r then inl r else inr 2.
(* the pinned tree: no merged-entries test *)
Definition into_iota_pinned (tgt : Z) (st : sdoc) : sdoc + Z :=
  if negb (checked (sd_id st)) then inr 1
  else if negb (forallb checked (sd_ctrl st)) then inr 1
  else let r := map_data (unpack_f tgt) st in if gate r then inl r else inr 2.
End Unpack.

(* ---- framing ---- *)
Definition MARK : list Z := [68; 73; 68].
Definition frame (body : list Z) : option (list Z) :=
  let n := Z.of_nat (length body) in
  if n <? 65536 then Some (MARK ++ [1; 0; n mod 256; n / 256] ++ body) else None.
(* errors: 10 = InvalidDoc (data too short), 11 = missing marker, 13 = unsupported version, 14 = unsupported encoding *)
Definition unframe (data : list Z) : list Z + Z :=
  match data with
  | a :: b :: c :: r3 =>
      if negb ((a =? 68) && (b =? 73) && (c =? 68)) then inr 11 else
      match r3 with
      | [] => inr 10
      | v :: r4 => if negb (v =? 1) then inr 13 else
          match r4 with
          | [] => inr 10
          | e :: r5 => if negb (e =? 0) then inr 14 else
              match r5 with
              | lo :: hi :: r7 => let n := Z.to_nat (lo + 256 * hi) in
                                  if (n <=? length r7)%nat then inl (firstn n r7) else inr 10
              | _ => inr 10
              end
          end
      end
  | _ => inr 10
  end.

(* ---- the whole path, the JSON codec of (document, metadata) being an oracle pair ---- *)
Section Full.
Variable iota_valid : Z -> bool.
Variable ser : sdoc * smeta -> list Z.
Variable de : list Z -> option (sdoc * smeta).      (* serde parse of the body WITHOUT CoreDocument's id-constraint gate *)
Definition pack_full (x : sdoc * smeta) : option (list Z) := frame (ser (to_state (fst x), clear_addr (snd x))).
(* errors as above; 12 = JSON / gate failure of the body *)
Definition unpack_state (data : list Z) : (sdoc * smeta) + Z :=
  match unframe data with
  | inr e => inr e
  | inl body => match de body with
                | None => inr 12
                | Some (st, m) => if gate st then inl (st, m) else inr 12
                end
  end.
Definition unpack_full (tgt : Z) (data : list Z) : (sdoc * smeta) + Z :=
  match unpack_state data with
  | inr e => inr e
  | inl (st, m) => match into_iota iota_valid tgt st with inl r => inl (r, m) | inr e => inr e end
  end.
End Full.

(* every DID position of a document / every DID position inside an identifier of a method, reference or service *)
Definition m_all (p : Z -> bool) (m : smeth) : bool := p (u_did (sm_id m)) && p (sm_ctrl m).
Definition r_all (p : Z -> bool) (r : sref) : bool := match r with SEmbed m => m_all p m | SRefer u => p (u_did u) end.
Definition dids_all (p : Z -> bool) (s : sdoc) : bool :=
  p (sd_id s) && forallb p (sd_ctrl s) && forallb (m_all p) (sd_vm s) && forallb (forallb (r_all p)) (sd_rels s)
  && forallb (fun x => p (u_did (s_id x))) (sd_svc s).
Definition urls_all (p : Z -> bool) (s : sdoc) : bool :=
  forallb (fun m => p (u_did (sm_id m))) (sd_vm s) && forallb (forallb (fun r => p (u_did (sr_id r)))) (sd_rels s)
  && forallb (fun x => p (u_did (s_id x))) (sd_svc s).
Fixpoint nodupz (l : list Z) : bool := match l with [] => true | x :: r => negb (existsb (fun y => y =? x) r) && nodupz r end.
Definition nodups (s : sdoc) : bool := nodup_by sm_id (sd_vm s) && forallb (nodup_by sr_id) (sd_rels s) && nodup_by s_id (sd_svc s).
(* an IotaDocument: id and controllers are IOTA DIDs, the collections are sets, the id constraints hold *)
Definition swf (iota_valid : Z -> bool) (s : sdoc) : bool :=
  iota_valid (sd_id s) && forallb iota_valid (sd_ctrl s) && nodupz (sd_ctrl s) && nodups s && gate s.
Definition no_placeholder (s : sdoc) : bool := dids_all (fun d => negb (d =? 0)) s.
(* the target DID does not already occur in an identifier of the document (other than as the document's own DID) *)
Definition target_fresh (tgt : Z) (s : sdoc) : bool := urls_all (fun d => (d =? sd_id s) || negb (d =? tgt)) s.
Definition rebase_f (self tgt d : Z) : Z := if d =? self then tgt else d.
