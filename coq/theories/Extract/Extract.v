(* Extraction of the executable models.  Only ExtrOcamlBasic's directives are used
   (bool, option, unit, list, prod, sumbool, sumor -> OCaml's own); nat, positive, N, Z stay
   the extracted inductive types; there is no Extract Constant.  Compiled from the runner
   directory (the .ml/.mli land in the current directory). *)
From Coq Require Import ExtrOcamlBasic ZArith.
From IdV Require Import Run.Dispatch.
Extraction "model.ml" run_case Z.of_nat Z.add Z.mul Z.opp Z.eqb Z.ltb Z.div Z.modulo Z.abs.
