(* The third-party DID value (did_url_parser 0.3.0: a stored string and five offsets) and its SETTERS (core.rs: set_method,
   set_method_id, set_path, set_query, set_fragment), which splice the string and shift the offsets.  Since fix 9f8c9e7
   CoreDID::parse assembles its value as  parse("did:a:a"); set_method(m); set_method_id(i)  and DIDUrl::join builds its base as
   From<CoreDID>; set_path(p); set_query(q); set_fragment(f) - so what the accessors of the assembled value return is part of the
   repository's behaviour.  Accessors: tp_method, tp_method_id, tp_path, tp_query, tp_fragment of Did/DidParse.v. *)
From Coq Require Import List NArith Bool Arith.
From IdV Require Import Lib.Outcome Did.DidParse.
Import ListNotations.
Open Scope N_scope.

Record tp_val := { t_data : list N; t_core : tp_core }.

(* String::replace_range(a..b, v): panics when a > b or b > len *)
Definition splice (data : list N) (a b : nat) (v : list N) : outcome (list N) did_err :=
  if (b <=? length data)%nat && (a <=? b)%nat then Ok (firstn a data ++ v ++ skipn b data) else Panic.
(* Int::new(old, new).add(x) on u32: x - (old - new) or x + (new - old); an underflow panics in debug builds *)
Definition shift (old new x : nat) : outcome nat did_err :=
  if (new <? old)%nat then (if (old - new <=? x)%nat then Ok (x - (old - new))%nat else Panic) else Ok (x + (new - old))%nat.
Definition shift_opt (old new : nat) (o : option nat) : outcome (option nat) did_err :=
  match o with Some x => obind (shift old new x) (fun y => Ok (Some y)) | None => Ok None end.

Definition tp_set_method (t : tp_val) (v : list N) : outcome tp_val did_err :=
  let c := t_core t in
  let new := (o_method c + 1 + length v)%nat in
  obind (splice (t_data t) (o_method c + 1) (o_mid c) v) (fun d =>
  obind (shift (o_mid c) new (o_mid c)) (fun mid =>
  obind (shift (o_mid c) new (o_path c)) (fun pa =>
  obind (shift_opt (o_mid c) new (o_query c)) (fun q =>
  obind (shift_opt (o_mid c) new (o_frag c)) (fun f =>
  Ok {| t_data := d; t_core := {| o_method := o_method c; o_mid := mid; o_path := pa; o_query := q; o_frag := f |} |}))))).
Definition tp_set_method_id (t : tp_val) (v : list N) : outcome tp_val did_err :=
  let c := t_core t in
  let new := (o_mid c + 1 + length v)%nat in
  obind (splice (t_data t) (o_mid c + 1) (o_path c) v) (fun d =>
  obind (shift (o_path c) new (o_path c)) (fun pa =>
  obind (shift_opt (o_path c) new (o_query c)) (fun q =>
  obind (shift_opt (o_path c) new (o_frag c)) (fun f =>
  Ok {| t_data := d; t_core := {| o_method := o_method c; o_mid := o_mid c; o_path := pa; o_query := q; o_frag := f |} |})))).
Definition tp_set_path (t : tp_val) (v : list N) : outcome tp_val did_err :=
  let c := t_core t in
  let e := match o_query c, o_frag c with Some q, _ => q | None, Some f => f | None, None => length (t_data t) end in
  let new := (o_path c + length v)%nat in
  obind (splice (t_data t) (o_path c) e v) (fun d =>
  obind (shift_opt e new (o_query c)) (fun q =>
  obind (shift_opt e new (o_frag c)) (fun f =>
  Ok {| t_data := d; t_core := {| o_method := o_method c; o_mid := o_mid c; o_path := o_path c; o_query := q; o_frag := f |} |}))).
(* set_query / set_fragment on a value WITHOUT query and fragment (the only state in which join's base construction calls them,
   in this order); the other arms of the crate's match are not reached from the repository *)
Definition tp_set_query_fresh (t : tp_val) (v : option (list N)) : tp_val :=
  match v with
  | Some q => {| t_data := t_data t ++ 63 :: q;
                 t_core := {| o_method := o_method (t_core t); o_mid := o_mid (t_core t); o_path := o_path (t_core t); o_query := Some (length (t_data t)); o_frag := None |} |}
  | None => t
  end.
Definition tp_set_fragment_fresh (t : tp_val) (v : option (list N)) : tp_val :=
  match v with
  | Some f => {| t_data := t_data t ++ 35 :: f;
                 t_core := {| o_method := o_method (t_core t); o_mid := o_mid (t_core t); o_path := o_path (t_core t); o_query := o_query (t_core t); o_frag := Some (length (t_data t)) |} |}
  | None => t
  end.

(* DID::parse("did:a:a") *)
Definition tp_placeholder : tp_val :=
  {| t_data := [100; 105; 100; 58; 97; 58; 97]; t_core := {| o_method := 3; o_mid := 5; o_path := 7; o_query := None; o_frag := None |} |}.
(* the value CoreDID::parse assembles, and the base DIDUrl::join assembles from it *)
Definition tp_assemble_did (m i : list N) : outcome tp_val did_err :=
  obind (tp_set_method tp_placeholder m) (fun t => tp_set_method_id t i).
Definition tp_assemble_base (m i p : list N) (q f : option (list N)) : outcome tp_val did_err :=
  obind (tp_assemble_did m i) (fun t => obind (tp_set_path t p) (fun t' => Ok (tp_set_fragment_fresh (tp_set_query_fresh t' q) f))).

(* ---- the general setters (every arm of the crate's code), used by the third-party join (transform_references) on the assembled base ---- *)
Definition tp_set_query (t : tp_val) (v : option (list N)) : outcome tp_val did_err :=
  let c := t_core t in let d := t_data t in
  let mk d' q f := Ok {| t_data := d'; t_core := {| o_method := o_method c; o_mid := o_mid c; o_path := o_path c; o_query := q; o_frag := f |} |} in
  match o_query c, o_frag c, v with
  | Some qp, None, Some x => obind (splice d (qp + 1) (length d) x) (fun d' => mk d' (Some qp) None)
  | None, Some fp, Some x => obind (splice d fp fp (63 :: x)) (fun d' => mk d' (Some fp) (Some (fp + length x + 1)%nat))
  | Some qp, Some fp, Some x => obind (splice d (qp + 1) fp x) (fun d' => mk d' (Some qp) (Some (qp + length x + 1)%nat))
  | None, None, Some x => mk (d ++ 63 :: x) (Some (length d)) None
  | Some qp, None, None => if (qp <=? length d)%nat then mk (firstn qp d) None None else Panic
  | Some qp, Some fp, None => obind (splice d qp fp []) (fun d' => mk d' None (Some (fp - (fp - qp))%nat))
  | None, _, None => Ok t
  end.
Definition tp_set_fragment (t : tp_val) (v : option (list N)) : outcome tp_val did_err :=
  let c := t_core t in
  let trunc := match o_frag c with Some fp => if (fp <=? length (t_data t))%nat then Ok (firstn fp (t_data t)) else Panic | None => Ok (t_data t) end in
  obind trunc (fun d =>
  match v with
  | Some x => Ok {| t_data := d ++ 35 :: x; t_core := {| o_method := o_method c; o_mid := o_mid c; o_path := o_path c; o_query := o_query c; o_frag := Some (length d) |} |}
  | None => Ok {| t_data := d; t_core := {| o_method := o_method c; o_mid := o_mid c; o_path := o_path c; o_query := o_query c; o_frag := None |} |}
  end).

(* the CANONICAL value for given components: the string "did:" m ":" i p ["?" q] ["#" f] with the offsets that belong to it *)
Definition optpre' (c : N) (o : option (list N)) : list N := match o with Some x => c :: x | None => [] end.
Definition olen' (o : option (list N)) : nat := match o with Some x => S (length x) | None => O end.
Definition tp_canon (m i p : list N) (q f : option (list N)) : tp_val :=
  let dl := (5 + length m + length i)%nat in
  {| t_data := [100; 105; 100; 58] ++ m ++ [58] ++ i ++ p ++ optpre' 63 q ++ optpre' 35 f;
     t_core := {| o_method := 3; o_mid := (4 + length m)%nat; o_path := dl;
                  o_query := match q with Some _ => Some (dl + length p)%nat | None => None end;
                  o_frag := match f with Some _ => Some (dl + length p + olen' q)%nat | None => None end |} |}.
(* resolution::transform_references on a canonical base, given what parse_relative read from the segment (P, Q, F) and the new path *)
Definition tp_transform (base : tp_val) (bm bi : list N) (path' : list N) (query' F : option (list N)) : outcome tp_val did_err :=
  obind (tp_set_path base path') (fun t1 => obind (tp_set_query t1 query') (fun t2 =>
  obind (tp_set_method t2 bm) (fun t3 => obind (tp_set_method_id t3 bi) (fun t4 => tp_set_fragment t4 F)))).

(* ---- DIDUrl::join with the third-party value spelled out: the base is assembled from the receiver's components, the third-party join
   transforms it, from_base_did_url reads path / query / fragment back through the accessors, hands them to the RelativeDIDUrl setters,
   clears them on the value and validates what is left as a CoreDID.  did_url_join (Did/DidParse.v) is this function with the third-party
   value short-circuited; Proofs/TpSettersProofs.v shows the two are the same function. ---- *)
Definition did_url_join_full (u : did_url) (seg : list N) : outcome did_url did_err :=
  match seg with
  | c :: _ =>
    if negb ((c =? 47) || (c =? 63) || (c =? 35)) then Err EPath else
    let bp := oapp (u_path u) in
    let bq := match u_query u with Some q => Some (strip1 63 q) | None => None end in
    let bf := match u_frag u with Some f => Some (strip1 35 f) | None => None end in
    obind (tp_assemble_did (u_method u) (u_mid u)) (fun t0 =>
    obind (tp_set_path t0 bp) (fun t1 => obind (tp_set_query t1 bq) (fun t2 => obind (tp_set_fragment t2 bf) (fun base =>
    obind (tp_rel_offsets seg) (fun rc =>
    obind (tp_path seg rc) (fun P =>
    obind (tp_query seg rc) (fun Q =>
    obind (tp_fragment seg rc) (fun F =>
    obind (tp_path (t_data base) (t_core base)) (fun base_path =>
    obind (tp_query (t_data base) (t_core base)) (fun base_query =>
    obind (tp_method (t_data base) (t_core base)) (fun bm =>
    obind (tp_method_id (t_data base) (t_core base)) (fun bi =>
    let path' := if is_nil P then base_path
                 else if (match P with x :: _ => x =? 47 | [] => false end) then remove_dot_segments P
                 else remove_dot_segments (merge_paths base_path P) in
    let query' := if is_nil P then (match Q with Some q => Some q | None => base_query end) else Q in
    obind (tp_transform base bm bi path' query' F) (fun T =>
    (* from_base_did_url *)
    obind (tp_path (t_data T) (t_core T)) (fun tpath =>
    obind (tp_query (t_data T) (t_core T)) (fun tquery =>
    obind (tp_fragment (t_data T) (t_core T)) (fun tfrag =>
    obind (set_path (Some tpath)) (fun up =>
    obind (set_query (match tquery with Some x => Some (63 :: x) | None => None end)) (fun uq =>
    obind (set_fragment (match tfrag with Some x => Some (35 :: x) | None => None end)) (fun uf =>
    obind (tp_set_path T []) (fun T1 => obind (tp_set_query T1 None) (fun T2 => obind (tp_set_fragment T2 None) (fun T3 =>
    obind (tp_method (t_data T3) (t_core T3)) (fun dm =>
    obind (tp_method_id (t_data T3) (t_core T3)) (fun di =>
    if negb (valid_method_name dm) || negb (valid_method_id di) then Err EOther else
    Ok {| u_did := t_data T3; u_method := dm; u_mid := di; u_path := up; u_query := uq; u_frag := uf |}))))))))))))))))))))))))
  | [] => Err EPath
  end.
