(* Byte-level model of DID / DID-URL parsing:
     did_url_parser 0.3.0 `Core::parse` (third party, transcribed faithfully including the
     percent branch that consumes one byte too many and the trimmed-vs-stored offset mismatch),
     identity_did::CoreDID::{parse, check_validity, valid_method_name, valid_method_id, set_*}
     and identity_did::DIDUrl::{parse, from_base_did_url}, RelativeDIDUrl::set_{path,query,fragment}
   as of the tree after the `fix:` commits 5943363, 3e8db87, eefd193 and the query/fragment one. *)
From Coq Require Import List NArith Bool Arith.
From IdV Require Import Lib.Outcome.
Import ListNotations.
Open Scope N_scope.

Inductive did_err := EScheme | EMethodName | EMethodId | EPath | EQuery | EFragment | EOther.

Definition is_digit c := (48 <=? c) && (c <=? 57).
Definition is_lower c := (97 <=? c) && (c <=? 122).
Definition is_upper c := (65 <=? c) && (c <=? 90).
Definition is_hexdig c := is_digit c || ((97 <=? c) && (c <=? 102)) || ((65 <=? c) && (c <=? 70)).
Definition char_method c := is_digit c || is_lower c.
Definition char_method_id c := is_digit c || is_lower c || is_upper c || (c =? 46) || (c =? 45) || (c =? 95) || (c =? 58).
(* ~ ! $ & ' ( ) * + , ; = @ / *)
Definition char_path c := char_method_id c || (c =? 126) || (c =? 33) || (c =? 36) || (c =? 38) || (c =? 39) || (c =? 40)
  || (c =? 41) || (c =? 42) || (c =? 43) || (c =? 44) || (c =? 59) || (c =? 61) || (c =? 64) || (c =? 47).
Definition char_query c := char_path c || (c =? 63).
Definition stop_mid c := (c =? 47) || (c =? 63) || (c =? 35).   (* / ? # *)
Definition stop_path c := (c =? 63) || (c =? 35).
Definition stop_query c := (c =? 35).
Definition stop_none (c : N) := false.

(* is_ascii_control || is_ascii_whitespace *)
Definition ctrl_or_space c := (c <=? 32) || (c =? 127).
Fixpoint drop_while (p : N -> bool) (l : list N) : list N :=
  match l with c :: r => if p c then drop_while p r else l | [] => [] end.
Definition trim (l : list N) : list N := rev (drop_while ctrl_or_space (rev (drop_while ctrl_or_space l))).
Definition lead (l : list N) : nat := length l - length (drop_while ctrl_or_space l).

(* u8::from_str_radix(two bytes, 16): hex digits, or a leading '+' and one hex digit *)
Definition radix_ok (h1 h2 : N) := (is_hexdig h1 && is_hexdig h2) || ((h1 =? 43) && is_hexdig h2).

(* the third-party scanning loop: number of bytes the cursor advances (may be length + 1) *)
Fixpoint tp_loop (stop ok : N -> bool) (l : list N) : option nat :=
  match l with
  | [] => Some O
  | c :: r =>
      if stop c then Some O
      else if c =? 37 then
        match r with
        | h1 :: h2 :: r2 =>
            if radix_ok h1 h2 then
              match r2 with
              | _ :: r3 => option_map (fun n => (4 + n)%nat) (tp_loop stop ok r3)   (* swallows one more byte *)
              | [] => Some 4%nat                                                    (* cursor = len + 1 *)
              end
            else None
        | _ => None
        end
      else if ok c then option_map S (tp_loop stop ok r) else None
  end.
(* the method-name loop has no percent branch *)
Fixpoint tp_loop_plain (stop ok : N -> bool) (l : list N) : option nat :=
  match l with
  | [] => Some O
  | c :: r => if stop c then Some O else if ok c then option_map S (tp_loop_plain stop ok r) else None
  end.

(* offsets in the trimmed data *)
Record tp_core := { o_method : nat; o_mid : nat; o_path : nat; o_query : option nat; o_frag : option nat }.

Definition is_colon c := (c =? 58).

(* Core::parse on the trimmed bytes, without the final emptiness tests *)
Definition tp_parse_offsets (d : list N) : outcome tp_core did_err :=
  match d with
  | a :: b :: c :: r0 =>
    if negb ((a =? 100) && (b =? 105) && (c =? 100)) then Err EScheme else
    match r0 with
    | col :: r1 =>
      if negb (is_colon col) then Err EMethodName else
      match tp_loop_plain is_colon char_method r1 with
      | None => Err EMethodName
      | Some n1 =>
        match skipn n1 r1 with
        | col2 :: r2 =>
          if negb (is_colon col2) then Err EMethodId else
          match tp_loop stop_mid char_method_id r2 with
          | None => Err EMethodId
          | Some n2 =>
            let i_mid := (4 + n1)%nat in
            let i_path := (i_mid + 1 + n2)%nat in
            let r3 := skipn n2 r2 in
            (* parse_path *)
            match (match r3 with
                   | [] => Some O
                   | c3 :: _ => if stop_path c3 then Some O else tp_loop stop_path char_path r3 end) with
            | None => Err EPath
            | Some n3 =>
              let r4 := skipn n3 r3 in
              (* parse_query *)
              match r4 with
              | [] => Ok {| o_method := 3; o_mid := i_mid; o_path := i_path; o_query := None; o_frag := None |}
              | c4 :: r4' =>
                let qres :=
                  if c4 =? 35 then Some (None, r4, (i_path + n3)%nat)
                  else if c4 =? 63 then
                    match tp_loop stop_query char_query r4' with
                    | None => None
                    | Some n4 => Some (Some (i_path + n3)%nat, skipn n4 r4', (i_path + n3 + 1 + n4)%nat)
                    end
                  else None in
                match qres with
                | None => Err (if c4 =? 63 then EPath else EQuery)
                | Some (oq, r5, i5) =>
                  (* parse_fragment *)
                  match r5 with
                  | [] => Ok {| o_method := 3; o_mid := i_mid; o_path := i_path; o_query := oq; o_frag := None |}
                  | c5 :: r5' =>
                    if negb (c5 =? 35) then Err EFragment else
                    match tp_loop stop_none char_query r5' with
                    | None => Err EFragment
                    | Some _ => Ok {| o_method := 3; o_mid := i_mid; o_path := i_path; o_query := oq; o_frag := Some i5 |}
                    end
                  end
                end
              end
            end
          end
        | [] => Err EMethodId
        end
      end
    | [] => Err EMethodName
    end
  | _ => Err EScheme
  end.

(* &data[a..b] : panics when b > len or a > b *)
Definition slice (data : list N) (a b : nat) : outcome (list N) did_err :=
  if (b <=? length data)%nat && (a <=? b)%nat then Ok (firstn (b - a) (skipn a data)) else Panic.
Definition slice_from (data : list N) (a : nat) : outcome (list N) did_err := slice data a (length data).

Definition obind {A B E} (o : outcome A E) (f : A -> outcome B E) : outcome B E :=
  match o with Ok a => f a | Err e => Err e | Panic => Panic end.

(* accessors of the third-party DID value: offsets (from the trimmed text) applied to the stored text *)
Definition tp_method (data : list N) (c : tp_core) := slice data (o_method c + 1) (o_mid c).
Definition tp_method_id (data : list N) (c : tp_core) := slice data (o_mid c + 1) (o_path c).
Definition tp_path (data : list N) (c : tp_core) :=
  match o_query c, o_frag c with
  | None, None => slice_from data (o_path c)
  | Some i, _ | None, Some i => slice data (o_path c) i
  end.
Definition tp_query (data : list N) (c : tp_core) : outcome (option (list N)) did_err :=
  match o_query c, o_frag c with
  | None, _ => Ok None
  | Some q, None => obind (slice_from data (q + 1)) (fun s => Ok (Some s))
  | Some q, Some f => obind (slice data (q + 1) f) (fun s => Ok (Some s))
  end.
Definition tp_fragment (data : list N) (c : tp_core) : outcome (option (list N)) did_err :=
  match o_frag c with
  | None => Ok None
  | Some f => obind (slice_from data (f + 1)) (fun s => Ok (Some s))
  end.

(* DID::parse of the third-party crate: offsets + the two emptiness tests (on the stored text) *)
Definition tp_parse (data : list N) : outcome tp_core did_err :=
  obind (tp_parse_offsets (trim data)) (fun c =>
  obind (tp_method data c) (fun m =>
  if match m with [] => true | _ => false end then Err EMethodName else
  obind (tp_method_id data c) (fun i =>
  if match i with [] => true | _ => false end then Err EMethodId else Ok c))).

(* ---- identity_did ---- *)
Definition valid_method_name (s : list N) : bool := forallb char_method s.
(* valid_method_id after fix 3e8db87: "%" HEXDIG HEXDIG *)
Fixpoint valid_method_id (s : list N) : bool :=
  match s with
  | [] => true
  | c :: r =>
      if c =? 37 then
        match r with
        | h1 :: h2 :: r2 => is_hexdig h1 && is_hexdig h2 && valid_method_id r2
        | _ => false
        end
      else char_method_id c && valid_method_id r
  end.
(* is_valid_url_segment *)
Fixpoint valid_seg (p : N -> bool) (s : list N) : bool :=
  match s with
  | [] => true
  | c :: r =>
      if c =? 37 then
        match r with
        | h1 :: h2 :: r2 => is_hexdig h1 && is_hexdig h2 && valid_seg p r2
        | _ => false
        end
      else p c && valid_seg p r
  end.

Definition is_nil (l : list N) : bool := match l with [] => true | _ => false end.
Fixpoint ends_with_pct (s : list N) : bool :=
  match s with
  | [c; _; _] => c =? 37
  | _ :: r => ends_with_pct r
  | [] => false
  end.
Fixpoint list_eqb (a b : list N) : bool :=
  match a, b with
  | [], [] => true
  | x :: a', y :: b' => (x =? y) && list_eqb a' b'
  | _, _ => false
  end.

(* CoreDID::check_validity on a parsed third-party value *)
Definition check_validity (data : list N) (c : tp_core) : outcome (list N * list N) did_err :=
  obind (tp_method data c) (fun m =>
  if negb (valid_method_name m) then Err EMethodName else
  obind (tp_method_id data c) (fun i =>
  if negb (valid_method_id i) then Err EMethodId else
  obind (tp_path data c) (fun p =>
  obind (tp_fragment data c) (fun f =>
  obind (tp_query data c) (fun q =>
  if negb (is_nil p) || (match f with Some _ => true | None => false end) || (match q with Some _ => true | None => false end)
  then Err EMethodId else Ok (m, i)))))).

(* CoreDID::parse as it was until the fix "CoreDID::parse splits the DID itself": two guards, the third-party parser, check_validity.
   Kept as the reference route: what it accepted is still accepted, with the same components (core_did_parse_tp_included). *)
Definition core_did_parse_tp (data : list N) : outcome (list N * list N) did_err :=
  if negb (list_eqb (trim data) data) then Err EScheme
  else if ends_with_pct data then Err EMethodId
  else obind (tp_parse data) (fun c => check_validity data c).

(* TryFrom<BaseDIDUrl> for CoreDID: check_validity on a third-party value the CALLER parsed, WITHOUT the two guards of CoreDID::parse.
   (Until fix "CoreDID is deserialised through CoreDID::parse" this was also serde's route; since then serde = CoreDID::parse.) *)
Definition core_did_from_base (data : list N) : outcome (list N * list N) did_err :=
  obind (tp_parse data) (fun c => check_validity data c).

(* RelativeDIDUrl setters: None = component cleared *)
Definition set_path (v : option (list N)) : outcome (option (list N)) did_err :=
  match v with
  | None | Some [] => Ok None
  | Some (c :: r) => if (c =? 47) && valid_seg char_path (c :: r) then Ok (Some (c :: r)) else Err EPath
  end.
Definition strip1 (d : N) (s : list N) : list N := match s with c :: r => if c =? d then r else s | [] => [] end.
Definition set_query (v : option (list N)) : outcome (option (list N)) did_err :=
  match v with
  | None | Some [] => Ok None
  | Some s => let t := strip1 63 s in
              if is_nil t || negb (valid_seg char_query t) then Err EQuery else Ok (Some (63 :: t))
  end.
Definition set_fragment (v : option (list N)) : outcome (option (list N)) did_err :=
  match v with
  | None | Some [] => Ok None
  | Some s => let t := strip1 35 s in
              if is_nil t || negb (valid_seg char_query t) then Err EFragment else Ok (Some (35 :: t))
  end.

Record did_url := { u_did : list N; u_method : list N; u_mid : list N;
                    u_path : option (list N); u_query : option (list N); u_frag : option (list N) }.
Definition oapp (o : option (list N)) : list N := match o with Some l => l | None => [] end.
Definition did_url_to_string (u : did_url) : list N := u_did u ++ oapp (u_path u) ++ oapp (u_query u) ++ oapp (u_frag u).

(* DIDUrl::parse = whitespace guard, third-party parse, then from_base_did_url *)
Definition did_url_parse (data : list N) : outcome did_url did_err :=
  if negb (list_eqb (trim data) data) then Err EScheme else      (* fix 358acae: verbatim input only *)
  obind (tp_parse data) (fun c =>
  obind (tp_path data c) (fun p =>
  obind (set_path (Some p)) (fun up =>
  obind (tp_query data c) (fun q =>
  obind (set_query (match q with Some x => Some (63 :: x) | None => None end)) (fun uq =>
  obind (tp_fragment data c) (fun f =>
  obind (set_fragment (match f with Some x => Some (35 :: x) | None => None end)) (fun uf =>
  (* base: the stored text cut at the path offset, same method / method-id offsets *)
  let base := firstn (o_path c) data in
  let cb := {| o_method := o_method c; o_mid := o_mid c; o_path := o_path c; o_query := None; o_frag := None |} in
  obind (check_validity base cb) (fun mi =>
  Ok {| u_did := base; u_method := fst mi; u_mid := snd mi; u_path := up; u_query := uq; u_frag := uf |})))))))).

(* DIDUrl::parse since fix: the fragment, the query and the path are split off here (str::split_once('#'), split_once('?'),
   find('/')), the DID is CoreDID::parse of what is left, the components go through the setters.  The third-party parser is
   no longer asked about the URL part (its percent handling: K_pct); `did_url_parse` above is what the pinned tree did and what
   `join` still does with the receiver's own text. *)
Fixpoint split_once (c : N) (l : list N) : option (list N * list N) :=
  match l with
  | [] => None
  | x :: r => if x =? c then Some ([], r)
              else match split_once c r with Some (a, b) => Some (x :: a, b) | None => None end
  end.
Fixpoint before_c (c : N) (l : list N) : list N := match l with [] => [] | x :: r => if x =? c then [] else x :: before_c c r end.
(* CoreDID::parse (did.rs) since that fix: strip_prefix("did"), strip_prefix(':'), split_once(':') (no second colon: empty method id),
   valid_method_name / valid_method_id on the two parts; the third-party value is then built from a placeholder with set_method /
   set_method_id, which splice the text and shift the offsets - so its accessors return exactly (method, method id). *)
Definition core_did_parse (data : list N) : outcome (list N * list N) did_err :=
  match data with
  | a :: b :: c :: r0 =>
    if negb ((a =? 100) && (b =? 105) && (c =? 100)) then Err EScheme else
    match r0 with
    | col :: rest =>
      if negb (is_colon col) then Err EMethodName else
      let mi := match split_once 58 rest with Some p => p | None => (rest, []) end in
      if is_nil (fst mi) || negb (valid_method_name (fst mi)) then Err EMethodName
      else if is_nil (snd mi) || negb (valid_method_id (snd mi)) then Err EMethodId
      else Ok mi
    | [] => Err EMethodName
    end
  | _ => Err EScheme
  end.
Definition did_url_split_parse (data : list N) : outcome did_url did_err :=
  let rf := match split_once 35 data with Some (r, f) => (r, Some f) | None => (data, None) end in
  let rq := match split_once 63 (fst rf) with Some (r, q) => (r, Some q) | None => (fst rf, None) end in
  let did := before_c 47 (fst rq) in
  let path := skipn (length did) (fst rq) in
  obind (core_did_parse did) (fun mi =>
  obind (set_path (Some path)) (fun up =>
  obind (set_query (match snd rq with Some x => Some (63 :: x) | None => None end)) (fun uq =>
  obind (set_fragment (match snd rf with Some x => Some (35 :: x) | None => None end)) (fun uf =>
  Ok {| u_did := did; u_method := fst mi; u_mid := snd mi; u_path := up; u_query := uq; u_frag := uf |})))).

(* ---- DIDUrl::join (did_url.rs) over the third-party DID::join (did.rs: parse_relative + resolution::transform_references) ---- *)
(* Core::parse_relative on the segment (NOT trimmed): parse_path, parse_query, parse_fragment from offset 0 *)
Definition tp_rel_offsets (d : list N) : outcome tp_core did_err :=
  match (match d with
         | [] => Some O
         | c3 :: _ => if stop_path c3 then Some O else tp_loop stop_path char_path d end) with
  | None => Err EPath
  | Some n3 =>
    let r4 := skipn n3 d in
    match r4 with
    | [] => Ok {| o_method := 0; o_mid := 0; o_path := 0; o_query := None; o_frag := None |}
    | c4 :: r4' =>
      let qres :=
        if c4 =? 35 then Some (None, r4, n3)
        else if c4 =? 63 then
          match tp_loop stop_query char_query r4' with
          | None => None
          | Some n4 => Some (Some n3, skipn n4 r4', (n3 + 1 + n4)%nat)
          end
        else None in
      match qres with
      | None => Err (if c4 =? 63 then EPath else EQuery)
      | Some (oq, r5, i5) =>
        match r5 with
        | [] => Ok {| o_method := 0; o_mid := 0; o_path := 0; o_query := oq; o_frag := None |}
        | c5 :: r5' =>
          if negb (c5 =? 35) then Err EFragment else
          match tp_loop stop_none char_query r5' with
          | None => Err EFragment
          | Some _ => Ok {| o_method := 0; o_mid := 0; o_path := 0; o_query := oq; o_frag := Some i5 |}
          end
        end
      end
    end
  end.

(* resolution::remove_dot_segments (RFC 3986 5.2.4 as written in the crate), on explicit fuel; the crate's loop always terminates
   (every arm but the last shortens the input, the last one consumes a segment), fuel = length + 1 suffices *)
Fixpoint pos_slash (l : list N) : option nat :=
  match l with [] => None | c :: r => if c =? 47 then Some O else option_map S (pos_slash r) end.
(* next_segment: a leading '/' belongs to the segment *)
Fixpoint next_segment (l : list N) : option nat :=
  match l with
  | c :: r => if c =? 47 then option_map S (next_segment r) else pos_slash l
  | [] => None
  end.
(* Path::pop: cut at the last '/' (nothing when there is none or the output is empty) *)
Fixpoint rfind_slash (l : list N) (i : nat) (acc : option nat) : option nat :=
  match l with [] => acc | c :: r => rfind_slash r (S i) (if c =? 47 then Some i else acc) end.
Definition path_pop (out : list N) : list N :=
  match rfind_slash out O None with Some i => firstn i out | None => out end.
Definition DOT : N := 46.
Fixpoint rds_loop (fuel : nat) (input out : list N) : list N :=
  match fuel with
  | O => out ++ input
  | S fuel' =>
    match input with
    | a :: b :: c :: r =>
        if (a =? DOT) && (b =? DOT) && (c =? 47) then rds_loop fuel' r out                       (* "../" *)
        else if (a =? DOT) && (b =? 47) then rds_loop fuel' (c :: r) out                          (* "./" *)
        else if (a =? 47) && (b =? DOT) && (c =? 47) then rds_loop fuel' (c :: r) out             (* "/./" *)
        else if (a =? 47) && (b =? DOT) && (c =? DOT) then
          match r with
          | d :: _ => if d =? 47 then rds_loop fuel' r (path_pop out)                             (* "/../" *)
                      else match next_segment input with
                           | Some i => rds_loop fuel' (skipn i input) (out ++ firstn i input)
                           | None => out ++ input end
          | [] => rds_loop fuel' [a; b] (path_pop out)                                            (* "/.." -> "/." *)
          end
        else match next_segment input with
             | Some i => rds_loop fuel' (skipn i input) (out ++ firstn i input)
             | None => out ++ input end
    | [a; b] =>
        if (a =? DOT) && (b =? 47) then rds_loop fuel' [] out                                     (* "./" *)
        else if (a =? 47) && (b =? DOT) then rds_loop fuel' [a] out                               (* "/." -> "/" *)
        else if (a =? DOT) && (b =? DOT) then rds_loop fuel' [] out                               (* ".." *)
        else match next_segment input with
             | Some i => rds_loop fuel' (skipn i input) (out ++ firstn i input)
             | None => out ++ input end
    | [a] => if a =? DOT then rds_loop fuel' [] out else out ++ input                             (* "." *)
    | [] => out
    end
  end.
Definition remove_dot_segments (p : list N) : list N := rds_loop (2 * length p + 2) p [].

(* merge_paths *)
Definition merge_paths (base_path ref : list N) : list N :=
  match base_path with
  | [] => ref
  | _ => match rfind_slash base_path O None with Some i => firstn (S i) base_path ++ ref | None => base_path ++ ref end
  end.

(* DIDUrl::join at the level of components, since the fix "join builds its base from the components": the receiver's DID value and
   its path / query / fragment are handed to the third-party join (no re-parsing of the receiver's text); the SEGMENT is still read by
   the third-party parse_relative (tp_rel_offsets), the result goes through from_base_did_url (the three setters, CoreDID::try_from).
   The third-party setters that rebuild the string and shift the offsets of the joined value are abstracted (exercised, not proved). *)
Definition did_url_join (u : did_url) (seg : list N) : outcome did_url did_err :=
  match seg with
  | c :: _ =>
    if negb ((c =? 47) || (c =? 63) || (c =? 35)) then Err EPath else
    obind (tp_rel_offsets seg) (fun rc =>
    obind (tp_path seg rc) (fun P =>
    obind (tp_query seg rc) (fun Q =>
    obind (tp_fragment seg rc) (fun F =>
    let bp := oapp (u_path u) in
    let bq := match u_query u with Some q => Some (strip1 63 q) | None => None end in
    let path' := if is_nil P then bp
                 else if (match P with x :: _ => x =? 47 | [] => false end) then remove_dot_segments P
                 else remove_dot_segments (merge_paths bp P) in
    let query' := if is_nil P then (match Q with Some q => Some q | None => bq end) else Q in
    obind (set_path (Some path')) (fun up =>
    obind (set_query (match query' with Some x => Some (63 :: x) | None => None end)) (fun uq =>
    obind (set_fragment (match F with Some x => Some (35 :: x) | None => None end)) (fun uf =>
    if negb (valid_method_name (u_method u)) || negb (valid_method_id (u_mid u)) then Err EOther else
    Ok {| u_did := u_did u; u_method := u_method u; u_mid := u_mid u; u_path := up; u_query := uq; u_frag := uf |})))))))
  | [] => Err EPath
  end.

(* ---- Eq / Ord / Hash of DID URLs (did_url.rs; the DID part compares by its string, did_url_parser) ---- *)
(* str::cmp: byte-wise lexicographic *)
Fixpoint bytes_cmp (a b : list N) : comparison :=
  match a, b with
  | [], [] => Eq
  | [], _ :: _ => Lt
  | _ :: _, [] => Gt
  | x :: a', y :: b' => match N.compare x y with Eq => bytes_cmp a' b' | c => c end
  end.
Definition url_eqb (u v : did_url) : bool :=
  list_eqb (u_did u) (u_did v) && list_eqb (oapp (u_path u)) (oapp (u_path v))
  && list_eqb (oapp (u_query u)) (oapp (u_query v)) && list_eqb (oapp (u_frag u)) (oapp (u_frag v)).
Definition url_cmp (u v : did_url) : comparison :=
  match bytes_cmp (u_did u) (u_did v) with
  | Eq => match bytes_cmp (oapp (u_path u)) (oapp (u_path v)) with
          | Eq => match bytes_cmp (oapp (u_query u)) (oapp (u_query v)) with
                  | Eq => bytes_cmp (oapp (u_frag u)) (oapp (u_frag v))
                  | c => c end
          | c => c end
  | c => c end.
(* Hash feeds exactly the string form to the hasher *)
Definition url_hash_input (u : did_url) : list N := did_url_to_string u.

(* known-finding class: '%' anywhere in the input (third-party percent branch) *)
Definition K_pct (s : list N) : bool := existsb (N.eqb 37) s.
