(* DIDJwk (identity_did/src/did_jwk.rs): a CoreDID whose method is "jwk" and whose method-specific id decodes
   (base64url, JSON, Jwk) - checked by TryFrom<CoreDID>, which every construction route goes through (parse, FromStr,
   TryFrom<&str>, and serde through `try_from = "CoreDID"`).  `jwk()` decodes again and expects success.
   The decoder is third party (serde_json + the Jwk deserialiser, C18): a Section variable. *)
From Coq Require Import List NArith Bool.
From IdV Require Import Lib.Outcome Did.DidParse.
Import ListNotations.
Open Scope N_scope.

Section DidJwk.
Variable J : Type.
Variable dj : list N -> option J.          (* decode_b64_json::<Jwk> *)
Definition JWK_METHOD : list N := [106; 119; 107].
(* a value: (method, method-specific id) of the CoreDID inside *)
Definition didjwk_try_from_core (c : list N * list N) : outcome (list N * list N) did_err :=
  if negb (list_eqb (fst c) JWK_METHOD) then Err EMethodName
  else match dj (snd c) with Some _ => Ok c | None => Err EMethodId end.
Definition didjwk_parse (s : list N) : outcome (list N * list N) did_err := obind (core_did_parse s) didjwk_try_from_core.
(* serde: Deserialize goes through CoreDID (deserialised through CoreDID::parse since fix; before that through core_did_from_base) and then try_from *)
Definition didjwk_serde (s : list N) : outcome (list N * list N) did_err := obind (core_did_parse s) didjwk_try_from_core.
(* the variant a `#[serde(transparent)]` would give: the CoreDID as it is *)
Definition didjwk_serde_transparent (s : list N) : outcome (list N * list N) did_err := core_did_from_base s.
Definition didjwk_jwk (v : list N * list N) : outcome J unit := match dj (snd v) with Some j => Ok j | None => Panic end.
End DidJwk.
