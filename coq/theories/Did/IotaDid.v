(* Model of identity_iota_core::did::IotaDID (iota_did.rs) and NetworkName::validate_network_name
   on top of the CoreDID model.  An IOTA DID value is represented by its method-specific id
   (the string form is "did:iota:" ++ id). *)
From Coq Require Import List NArith Bool.
From IdV Require Import Lib.Outcome Did.DidParse.
Import ListNotations.
Open Scope N_scope.

Definition ascii_lower (c : N) : N := if (65 <=? c) && (c <=? 90) then c + 32 else c.
(* str::to_lowercase on the UTF-8 bytes, as far as it can matter here: ASCII letters are lowered, and the only two
   non-ASCII characters whose lowercase form contains an ASCII byte are U+212A KELVIN SIGN (e2 84 aa -> "k") and
   U+0130 (c4 b0 -> "i" cc 87).  Every other non-ASCII character lowercases to non-ASCII bytes, which the DID parser
   rejects either way, so those bytes are kept as they are. *)
Fixpoint to_lower (l : list N) : list N :=
  match l with
  | [] => []
  | c :: r =>
      match r with
      | a :: r1 =>
          if (c =? 196) && (a =? 176) then 105 :: 204 :: 135 :: to_lower r1
          else match r1 with
               | b :: r2 => if (c =? 226) && (a =? 132) && (b =? 170) then 107 :: to_lower r2 else ascii_lower c :: to_lower r
               | [] => ascii_lower c :: to_lower r
               end
      | [] => [ascii_lower c]
      end
  end.

Definition IOTA : list N := [105; 111; 116; 97].           (* "iota" *)
Definition DID_IOTA_PREFIX : list N := [100; 105; 100; 58; 105; 111; 116; 97; 58].   (* "did:iota:" *)

(* input.find(':').map(split_at) ... unwrap_or((DEFAULT_NETWORK, input)) *)
Fixpoint split_colon (l : list N) : option (list N * list N) :=
  match l with
  | [] => None
  | c :: r => if c =? 58 then Some ([], r)
              else match split_colon r with Some (a, b) => Some (c :: a, b) | None => None end
  end.
Definition denorm (mid : list N) : list N * list N :=
  match split_colon mid with Some (n, t) => (n, t) | None => (IOTA, mid) end.

Definition is_lower_hex c := is_digit c || ((97 <=? c) && (c <=? 102)).
(* prefix_hex::decode::<[u8; 32]>: "0x" + exactly 64 hex digits (input is already lower case) *)
Definition tag_ok (t : list N) : bool :=
  match t with
  | z :: x :: r => (z =? 48) && (x =? 120) && (Nat.eqb (length r) 64) && forallb is_hexdig r
  | _ => false
  end.
Definition net_ok (n : list N) : bool :=
  negb (is_nil n) && (Nat.leb (length n) 6) && forallb (fun c => is_lower c || is_digit c) n.

Definition iota_normalize (mid : list N) : list N :=
  match split_colon mid with
  | Some (n, t) => if list_eqb n IOTA then t else mid
  | None => mid
  end.

Definition iota_parse (s : list N) : outcome (list N) did_err :=
  match core_did_parse (to_lower s) with
  | Ok (m, i) =>
      if negb (list_eqb m IOTA) then Err EMethodName
      else let '(n, t) := denorm i in
           if negb (tag_ok t) then Err EMethodId
           else if negb (net_ok n) then Err EOther
           else Ok (iota_normalize i)
  | Err e => Err e
  | Panic => Panic
  end.

(* IotaDID::try_from_core on an already parsed CoreDID (method, method id): the checks, then normalisation; after fix e8fe5c5 the
   normalisation also lower-cases the method id (the tag is decoded case-insensitively, so upper-case hex digits pass the checks) *)
Definition iota_from_core (mi : list N * list N) : outcome (list N) did_err :=
  let '(m, i) := mi in
  if negb (list_eqb m IOTA) then Err EMethodName
  else let '(n, t) := denorm i in
       if negb (tag_ok t) then Err EMethodId
       else if negb (net_ok n) then Err EOther
       else Ok (iota_normalize (map ascii_lower i)).
(* the pinned tree kept the method id as it was *)
Definition iota_from_core_pinned (mi : list N * list N) : outcome (list N) did_err :=
  let '(m, i) := mi in
  if negb (list_eqb m IOTA) then Err EMethodName
  else let '(n, t) := denorm i in
       if negb (tag_ok t) then Err EMethodId
       else if negb (net_ok n) then Err EOther
       else Ok (iota_normalize i).
(* IotaDID::try_from_core(CoreDID::parse(s)) / TryFrom<CoreDID>: no lower-casing of the input *)
Definition iota_try_from_core (s : list N) : outcome (list N) did_err := obind (core_did_parse s) iota_from_core.
(* TryFrom<BaseDIDUrl>: CoreDID::try_from(BaseDIDUrl) is check_validity without the guards of CoreDID::parse *)
Definition iota_try_from_base (s : list N) : outcome (list N) did_err :=
  obind (obind (tp_parse s) (fun c => check_validity s c)) iota_from_core.
(* the id of a deserialised IotaDocument (IotaDID::check_normalized): a valid IOTA DID that normalisation leaves as it is *)
Definition iota_doc_id (s : list N) : outcome (list N) did_err :=
  obind (core_did_parse s) (fun mi => obind (iota_from_core mi) (fun v => if list_eqb v (snd mi) then Ok v else Err EMethodId)).

Definition iota_network (mid : list N) : list N := fst (denorm mid).
Definition iota_tag (mid : list N) : list N := snd (denorm mid).
Definition iota_to_string (mid : list N) : list N := DID_IOTA_PREFIX ++ mid.

(* IotaDID::new(bytes, network): format!("did:iota:{network}:{tag}") then parse, expect() *)
Definition iota_new (tag_hex : list N) (network : list N) : outcome (list N) did_err :=
  match iota_parse (DID_IOTA_PREFIX ++ network ++ [58] ++ [48; 120] ++ tag_hex) with
  | Ok v => Ok v
  | _ => Panic
  end.

(* normal form: the default network is never spelled out *)
Definition iota_normal (mid : list N) : Prop :=
  match split_colon mid with Some (n, _) => n <> IOTA | None => True end.
