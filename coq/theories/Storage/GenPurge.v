(* Model of the storage-backed generate_method / purge_method (jwk_document_ext.rs macros) over the
   document model: state = document x key store x key-id store.  Every storage call consumes the next
   bit of a fault script (true = that call fails without effect).  The key generated for a method is
   identified with the method's payload, its digest likewise.
   purge is the version after fix a3d7704 (restore the saved document); generate exists in two
   variants: `snapshot = true` restores the saved document on a failing insert_key_id, `false` is the
   tree's remove_method rollback. *)
From Coq Require Import List ZArith Bool.
From IdV Require Import Doc.Doc.
Import ListNotations.
Open Scope Z_scope.

Record sst := { s_doc : doc; s_keys : list Z; s_kids : list (Z * Z) }.   (* kids: digest -> key id *)
Inductive sres := SOk | SPlain | SUndoFailed.

Definition next (fs : list bool) : bool * list bool := match fs with b :: r => (b, r) | [] => (false, []) end.
Definition keys_del (ks : list Z) (k : Z) : list Z := filter (fun x => negb (x =? k)) ks.
Definition kids_get (l : list (Z * Z)) (dg : Z) : option Z :=
  match find (fun e => fst e =? dg) l with Some e => Some (snd e) | None => None end.
Definition kids_del (l : list (Z * Z)) (dg : Z) : list (Z * Z) := filter (fun e => negb (fst e =? dg)) l.

(* try_undo_key_generation: delete the stray key; a failing delete is reported as UndoOperationFailed *)
Definition undo_keygen (st : sst) (k : Z) (fs : list bool) : sres * sst :=
  let '(f, _) := next fs in
  if f then (SUndoFailed, st)
  else (SPlain, {| s_doc := s_doc st; s_keys := keys_del (s_keys st) k; s_kids := s_kids st |}).

(* generate_method: fresh key k (also the new method's payload), id ou, scope sc.
   ou = None: VerificationMethod::new_from_jwk fails (no fragment was given and the JWK the store generated carries no kid,
   which the JwkStorage contract allows); the stray key is removed like in the other error paths. *)
Definition generate (snapshot : bool) (st : sst) (k : Z) (ou : option url) (sc : scope) (fs : list bool) : sres * sst :=
  let '(f1, fs1) := next fs in                                   (* JwkStorage::generate *)
  if f1 then (SPlain, st) else
  let st1 := {| s_doc := s_doc st; s_keys := s_keys st ++ [k]; s_kids := s_kids st |} in
  match ou with None => undo_keygen st1 k fs1 | Some u =>       (* VerificationMethodConstructionError *)
  match insert_method (s_doc st) {| m_id := u; m_data := k |} sc with
  | inr _ => undo_keygen st1 k fs1                               (* FragmentAlreadyExists *)
  | inl d' =>
      let '(f2, fs2) := next fs1 in                              (* KeyIdStorage::insert_key_id *)
      let taken := match kids_get (s_kids st) k with Some _ => true | None => false end in
      if f2 || taken then
        let back := if snapshot then s_doc st else fst (remove_method d' u) in
        undo_keygen {| s_doc := back; s_keys := s_keys st1; s_kids := s_kids st |} k fs2
      else (SOk, {| s_doc := d'; s_keys := s_keys st1; s_kids := s_kids st ++ [(k, k)] |})
  end end.

(* purge_method *)
Definition purge (st : sst) (u : url) (fs : list bool) : sres * sst :=
  match snd (remove_method (s_doc st) u) with
  | None => (SPlain, st)                                         (* MethodNotFound, document restored *)
  | Some (m, _) =>
      let d' := fst (remove_method (s_doc st) u) in
      let dg := m_data m in
      let '(f1, fs1) := next fs in                               (* get_key_id *)
      match (if f1 then None else kids_get (s_kids st) dg) with
      | None => (SPlain, st)
      | Some k =>
          let '(fk, fs2) := next fs1 in                          (* JwkStorage::delete *)
          let '(fi, fs3) := next fs2 in                          (* KeyIdStorage::delete_key_id *)
          let key_missing := negb (existsb (Z.eqb k) (s_keys st)) in
          let fk := fk || key_missing in
          match fk, fi with
          | false, false => (SOk, {| s_doc := d'; s_keys := keys_del (s_keys st) k; s_kids := kids_del (s_kids st) dg |})
          | false, true => (SUndoFailed, {| s_doc := d'; s_keys := keys_del (s_keys st) k; s_kids := s_kids st |})
          | true, false =>
              let '(fr, _) := next fs3 in                        (* insert_key_id again *)
              if fr then (SUndoFailed, {| s_doc := d'; s_keys := s_keys st; s_kids := kids_del (s_kids st) dg |})
              else (SPlain, {| s_doc := s_doc st; s_keys := s_keys st; s_kids := kids_del (s_kids st) dg ++ [(dg, k)] |})
          | true, true => (SPlain, st)
          end
      end
  end.

(* observable equality of stores: same key set, same digest -> key map (order is not observable) *)
Definition same_keys (a b : list Z) : Prop := forall k, In k a <-> In k b.
Definition same_kids (a b : list (Z * Z)) : Prop := forall dg, kids_get a dg = kids_get b dg.
Definition same_obs (a b : sst) : Prop := s_doc a = s_doc b /\ same_keys (s_keys a) (s_keys b) /\ same_kids (s_kids a) (s_kids b).
