(* JwkMemStore / KeyIdMemstore (identity_storage/src/key_storage/memstore.rs, key_id_storage/memstore.rs).
   Key ids are numbers handed out by a counter (the code draws 32 random alphanumerics: freshness is assumed);
   a secret key is a number, its public key is [pub s] (injective); a signature made with secret s over a message
   is the abstract term (s, message) and verifies under a public key iff the key is [pub s] (scheme assumption). *)
From Coq Require Import List ZArith Bool.
Import ListNotations.
Open Scope Z_scope.

Inductive ktype := KtEd25519 | KtBls | KtOther.                  (* the KeyType string given to generate *)
Inductive alg := AEdDSA | AOther | AUnparsable.                  (* an alg name: EdDSA, another known JWS algorithm, not a known name *)
Inductive jkind := JOkpEd25519 | JOkpOtherCrv | JEcBls | JEcOther | JOtherKty.
Record jwk := { j_kind : jkind; j_private : bool; j_alg : option alg; j_secret : Z; j_d_ok : bool }.   (* j_d_ok: the d member decodes to 32 bytes *)
Record pubjwk := { p_kind : jkind; p_alg : option alg; p_key : Z; p_kid_is_thumbprint : bool; p_public_only : bool }.

Inductive kerr := EUnsupportedKeyType | EKeyAlgMismatch | EUnsupportedAlg | EUnspecified | EKeyNotFound.
Definition store := list (Z * jwk).                                (* key id -> stored JWK, newest first *)
Record kstate := { ks_next : Z; ks_store : store }.
Definition ks_init : kstate := {| ks_next := 0; ks_store := [] |}.
Fixpoint lookup (s : store) (id : Z) : option jwk := match s with [] => None | (k, v) :: r => if k =? id then Some v else lookup r id end.
Fixpoint remove (s : store) (id : Z) : store := match s with [] => [] | (k, v) :: r => if k =? id then remove r id else (k, v) :: remove r id end.

Definition pub (secret : Z) : Z := secret.
Definition verifies (public_key : Z) (signed_with : Z) : bool := public_key =? pub signed_with.
Definition memtype_of_ktype (k : ktype) : option jkind := match k with KtEd25519 => Some JOkpEd25519 | KtBls => Some JEcBls | KtOther => None end.
Definition memtype_of_jwk (j : jwk) : option jkind := match j_kind j with JOkpEd25519 => Some JOkpEd25519 | JEcBls => Some JEcBls | _ => None end.
Definition compatible (k : jkind) (a : alg) : bool := match k, a with JOkpEd25519, AEdDSA => true | _, _ => false end.

Inductive kres := RGen (id : Z) (p : pubjwk) | RId (id : Z) | RSig (secret : Z) | RUnit | RBool (b : bool) | RErr (e : kerr).
(* generate takes a typed JwsAlgorithm: [eddsa] says whether it is EdDSA; the fresh secret is the oracle's draw *)
Inductive kop := OGenerate (k : ktype) (eddsa : bool) (fresh_secret : Z) | OInsert (j : jwk) | OSign (id : Z) (p : pubjwk) | ODelete (id : Z) | OExists (id : Z).

Definition kstep (s : kstate) (o : kop) : kstate * kres :=
  match o with
  | OGenerate k eddsa sec =>
      match memtype_of_ktype k with
      | None => (s, RErr EUnsupportedKeyType)
      | Some mt =>
          if negb (compatible mt (if eddsa then AEdDSA else AOther)) then (s, RErr EKeyAlgMismatch) else
          let id := ks_next s in
          let j := {| j_kind := JOkpEd25519; j_private := true; j_alg := Some AEdDSA; j_secret := sec; j_d_ok := true |} in
          ({| ks_next := id + 1; ks_store := (id, j) :: ks_store s |},
           RGen id {| p_kind := JOkpEd25519; p_alg := Some AEdDSA; p_key := pub sec; p_kid_is_thumbprint := true; p_public_only := true |})
      end
  | OInsert j =>
      match memtype_of_jwk j with
      | None => (s, RErr EUnsupportedKeyType)
      | Some mt =>
        if negb (j_private j) then (s, RErr EUnspecified) else
        match j_alg j with
        | None => (s, RErr EUnsupportedAlg)
        | Some AUnparsable => (s, RErr EUnsupportedAlg)
        | Some a => if negb (compatible mt a) then (s, RErr EKeyAlgMismatch) else
                    let id := ks_next s in ({| ks_next := id + 1; ks_store := (id, j) :: ks_store s |}, RId id)
        end
      end
  | OSign id p =>
      match p_alg p with
      | Some AEdDSA =>
        match p_kind p with
        | JOkpEd25519 =>
            match lookup (ks_store s) id with
            | None => (s, RErr EKeyNotFound)
            | Some j => if j_d_ok j then (s, RSig (j_secret j)) else (s, RErr EUnspecified)
            end
        | _ => (s, RErr EUnspecified)
        end
      | _ => (s, RErr EUnsupportedAlg)
      end
  | ODelete id => match lookup (ks_store s) id with None => (s, RErr EKeyNotFound) | Some _ => ({| ks_next := ks_next s; ks_store := remove (ks_store s) id |}, RUnit) end
  | OExists id => (s, RBool (match lookup (ks_store s) id with Some _ => true | None => false end))
  end.
Definition krun (ops : list kop) (s : kstate) : kstate := fold_left (fun a o => fst (kstep a o)) ops s.
(* the Stronghold-backed store (identity_stronghold/src/storage/stronghold_jwk_storage.rs): the same contract; it additionally expands the secret of
   an inserted JWK (ed25519::expand_secret_jwk), so a private member that is not a 32-byte key is refused at insertion instead of at signing *)
Definition kstep_sh (s : kstate) (o : kop) : kstate * kres :=
  match o with
  | OInsert j => match kstep s o with
                 | (s', RId id) => if j_d_ok j then (s', RId id) else (s, RErr EUnspecified)
                 | r => r end
  | _ => kstep s o
  end.

(* ---- key-id store: method digest -> key id ---- *)
Definition idstore := list (Z * Z).
Fixpoint id_get (s : idstore) (d : Z) : option Z := match s with [] => None | (k, v) :: r => if k =? d then Some v else id_get r d end.
Fixpoint id_remove (s : idstore) (d : Z) : idstore := match s with [] => [] | (k, v) :: r => if k =? d then id_remove r d else (k, v) :: id_remove r d end.
Inductive idop := IInsert (d kid : Z) | IGet (d : Z) | IDelete (d : Z).
Inductive idres := IOk | IVal (kid : Z) | IExists | INotFound.
Definition idstep (s : idstore) (o : idop) : idstore * idres :=
  match o with
  | IInsert d kid => match id_get s d with Some _ => (s, IExists) | None => ((d, kid) :: s, IOk) end
  | IGet d => match id_get s d with Some v => (s, IVal v) | None => (s, INotFound) end
  | IDelete d => match id_get s d with Some _ => (id_remove s d, IOk) | None => (s, INotFound) end
  end.

(* ---- n threads inserting a key id for ONE digest: acquire the write lock; contains_key; insert; release ---- *)
Inductive pc := Start | Holding | Checked (present : bool) | Done (ok : bool).
Record race := { r_pc : Z -> pc; r_lock : option Z; r_store : option Z }.      (* store: which thread's key id the digest maps to *)
Definition race_init : race := {| r_pc := fun _ => Start; r_lock := None; r_store := None |}.
Definition set_pc (f : Z -> pc) (t : Z) (p : pc) : Z -> pc := fun x => if x =? t then p else f x.
Definition rstep (r : race) (t : Z) : race :=
  match r_pc r t with
  | Start => match r_lock r with None => {| r_pc := set_pc (r_pc r) t Holding; r_lock := Some t; r_store := r_store r |} | Some _ => r end
  | Holding => {| r_pc := set_pc (r_pc r) t (Checked (match r_store r with Some _ => true | None => false end)); r_lock := r_lock r; r_store := r_store r |}
  | Checked true => {| r_pc := set_pc (r_pc r) t (Done false); r_lock := None; r_store := r_store r |}
  | Checked false => {| r_pc := set_pc (r_pc r) t (Done true); r_lock := None; r_store := Some t |}
  | Done _ => r
  end.
Definition rrun (schedule : list Z) : race := fold_left rstep schedule race_init.
(* the variant whose contains_key runs before the lock is taken *)
Definition rstep_unlocked (r : race) (t : Z) : race :=
  match r_pc r t with
  | Start => {| r_pc := set_pc (r_pc r) t (Checked (match r_store r with Some _ => true | None => false end)); r_lock := r_lock r; r_store := r_store r |}
  | Checked true => {| r_pc := set_pc (r_pc r) t (Done false); r_lock := r_lock r; r_store := r_store r |}
  | Checked false => {| r_pc := set_pc (r_pc r) t (Done true); r_lock := r_lock r; r_store := Some t |}
  | _ => r
  end.
