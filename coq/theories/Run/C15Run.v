(* Wire-level entry point of the C15 model (key stores).
   kind 1: nops ops..   0 ktype eddsa | 1 jkind private alg secret d_ok | 2 id pkind palg | 3 id | 4 id       (alg: -1 none, 0 EdDSA, 1 other, 2 unparsable)
           per op: gen 0 id public_only kid_is_thumbprint alg key | insert 0 id | sign 0 secret | delete 0 | exists 0 b | 1 err
   kind 2: nops ops..   0 digest keyid | 1 digest | 2 digest          per op: 0 | 0 keyid | 1 (exists) | 2 (not found)
   kind 3: nthreads nsched schedule..        -> number of successful inserts, 1 if the digest maps to the winner *)
From Coq Require Import List ZArith Bool.
From IdV Require Import Lib.Wire Storage.KeyStore Run.C07Run.
Import ListNotations.
Open Scope Z_scope.

Definition jkind_of (z : Z) : jkind := if z =? 0 then JOkpEd25519 else if z =? 1 then JOkpOtherCrv else if z =? 2 then JEcBls else if z =? 3 then JEcOther else JOtherKty.
Definition alg_of (z : Z) : option alg := if z <? 0 then None else Some (if z =? 0 then AEdDSA else if z =? 1 then AOther else AUnparsable).
Definition alg_code (a : option alg) : Z := match a with None => -1 | Some AEdDSA => 0 | Some AOther => 1 | Some AUnparsable => 2 end.
Definition kerr_code (e : kerr) : Z := match e with EUnsupportedKeyType => 1 | EKeyAlgMismatch => 2 | EUnsupportedAlg => 3 | EUnspecified => 4 | EKeyNotFound => 5 end.
Definition rkop (n : Z) : rd kop :=
  t <- rz ;;
  if t =? 0 then (k <- rz ;; e <- rz ;; ret (OGenerate (if k =? 0 then KtEd25519 else if k =? 1 then KtBls else KtOther) (negb (e =? 0)) (5000 + n)))
  else if t =? 1 then (k <- rz ;; p <- rz ;; a <- rz ;; s <- rz ;; d <- rz ;; ret (OInsert {| j_kind := jkind_of k; j_private := negb (p =? 0); j_alg := alg_of a; j_secret := s; j_d_ok := negb (d =? 0) |}))
  else if t =? 2 then (i <- rz ;; k <- rz ;; a <- rz ;; ret (OSign i {| p_kind := jkind_of k; p_alg := alg_of a; p_key := 0; p_kid_is_thumbprint := false; p_public_only := true |}))
  else if t =? 3 then (i <- rz ;; ret (ODelete i))
  else (i <- rz ;; ret (OExists i)).
Definition w_kres (r : kres) : list Z :=
  match r with
  | RGen id p => [0; id; zb (p_public_only p); zb (p_kid_is_thumbprint p); alg_code (p_alg p); p_key p]
  | RId id => [0; id] | RSig s => [0; s] | RUnit => [0] | RBool b => [0; zb b] | RErr e => [1; kerr_code e] end.
Fixpoint run1g (step : kstate -> kop -> kstate * kres) (hide : bool) (fuel : nat) (n : Z) (l : list Z) (s : kstate) : list Z :=
  match fuel with O => [] | S f =>
    match l with [] => [] | _ =>
      match rkop n l with
      | Some (o, rest) => let (s', r) := step s o in (match r with RErr _ => if hide then [1; -1] else w_kres r | _ => w_kres r end) ++ run1g step hide f (n + 1) rest s'
      | None => ERR_DECODE end end end.
Definition run1 := run1g kstep false.
Definition rid (l : list Z) : option (idop * list Z) :=
  match l with
  | 0 :: d :: k :: r => Some (IInsert d k, r) | 1 :: d :: r => Some (IGet d, r) | 2 :: d :: r => Some (IDelete d, r) | _ => None end.
Definition w_idres (r : idres) : list Z := match r with IOk => [0] | IVal k => [0; k] | IExists => [1] | INotFound => [2] end.
Fixpoint run2 (fuel : nat) (l : list Z) (s : idstore) : list Z :=
  match fuel with O => [] | S f =>
    match l with [] => [] | _ =>
      match rid l with Some (o, rest) => let (s', r) := idstep s o in w_idres r ++ run2 f rest s' | None => ERR_DECODE end end end.
Definition c15_run (input : list Z) : list Z :=
  match input with
  | 1 :: _ :: l => run1 (length l) 0 l ks_init
  | 2 :: _ :: l => run2 (length l) l []
  (* 11 / 12: the same histories on the Stronghold-backed store: the contract, hence the model, is the same *)
  | 11 :: _ :: l => run1g kstep_sh true (length l) 0 l ks_init     (* error kinds differ between the stores and are not part of the contract *)
  | 12 :: _ :: l => run2 (length l) l []
  | 3 :: n :: _ :: sched =>
      let r := rrun sched in
      let wins := filter (fun t => match r_pc r t with Done true => true | _ => false end) (map Z.of_nat (seq 1 (Z.to_nat n))) in
      [Z.of_nat (length wins); match r_store r, wins with Some w, [w'] => zb (w =? w') | _, _ => 0 end]
  | 13 :: _ => [-5555]      (* BBS+ keys: property oracle only *)
  | _ => ERR_DECODE end.
