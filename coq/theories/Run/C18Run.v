(* Wire-level entry point of the C18 model (JWK).  Member n carries the value 1000+n. *)
From Coq Require Import List ZArith Bool.
From IdV Require Import Lib.Wire Lib.Base64 Lib.Sha256 Jose.Jwk Jose.Thumbprint.
Import ListNotations.
Open Scope Z_scope.

Definition c18_kty (z : Z) : jkty := if z =? 0 then KEc else if z =? 1 then KRsa else if z =? 2 then KOct else KOkp.
Definition c18_op (z : Z) : jop :=
  if z =? 0 then OSign else if z =? 1 then OVerify else if z =? 2 then OEncrypt else if z =? 3 then ODecrypt
  else if z =? 4 then OWrap else if z =? 5 then OUnwrap else if z =? 6 then ODeriveKey else if z =? 7 then ODeriveBits
  else if z =? 8 then OProofGen else OProofVer.
Definition c18_op_code (o : jop) : Z :=
  match o with OSign => 0 | OVerify => 1 | OEncrypt => 2 | ODecrypt => 3 | OWrap => 4 | OUnwrap => 5
  | ODeriveKey => 6 | ODeriveBits => 7 | OProofGen => 8 | OProofVer => 9 end.

Definition c18_ids (l : list (Z * Z)) : list Z := map fst l.
Fixpoint c18_insert (x : Z) (l : list Z) : list Z :=
  match l with [] => [x] | y :: r => if x <=? y then x :: l else y :: c18_insert x r end.
Definition c18_sort (l : list Z) : list Z := fold_right c18_insert [] l.

(* member numbers of the JSON object a key serialises to (kty excluded) *)
Definition c18_json_members (k : jwk) : list Z :=
  let opt (n : Z) (o : option Z) := match o with Some _ => [n] | None => [] end in
  c18_sort (opt 20 (j_use k) ++ (match j_ops k with Some _ => [21] | None => [] end) ++ opt 22 (j_alg k) ++ opt 23 (j_kid k)
            ++ opt 24 (j_x5u k) ++ opt 25 (j_x5c k) ++ opt 26 (j_x5t k) ++ opt 27 (j_x5ts k)
            ++ c18_ids (public_members (j_params k)) ++ c18_ids (private_members (j_params k))).

Definition c18_describe (k : jwk) : list Z :=
  [jkty_code (j_kty k); jkty_code (params_kty (j_params k)); zb (jwk_is_public k); zb (jwk_is_private k)].

Definition jwk_eqb_shallow (a b : jwk) : bool :=
  (* enough for idempotence: same kty, same member sets, same ops *)
  (jkty_code (j_kty a) =? jkty_code (j_kty b))
  && (if list_eq_dec Z.eq_dec (c18_json_members a) (c18_json_members b) then true else false)
  && (if list_eq_dec Z.eq_dec (match j_ops a with Some l => map c18_op_code l | None => [-1] end)
                              (match j_ops b with Some l => map c18_op_code l | None => [-1] end) then true else false).

Fixpoint c18_setters (fuel : nat) (ops : list Z) (k : jwk) : list Z :=
  match fuel with
  | O => []
  | S fuel' =>
    match ops with
    | t :: a :: b :: r =>
        let mk (fam priv : Z) : jparams :=
          let d := if bz priv then Some 1004 else None in
          if fam =? 0 then PEc 1001 1002 1003 d
          else if fam =? 1 then PRsa 1005 1006 d None None None None None None
          else if fam =? 2 then POct 1013 else POkp 1001 1002 d in
        if t =? 0 then let k' := jwk_set_kty k (c18_kty a) in (1 :: c18_describe k') ++ c18_setters fuel' r k'
        else if t =? 1 then
          match jwk_set_params k (mk a b) with
          | Some k' => (1 :: c18_describe k') ++ c18_setters fuel' r k'
          | None => (0 :: c18_describe k) ++ c18_setters fuel' r k
          end
        else if t =? 3 then let k' := jwk_params_mut_assign k (mk a b) in (1 :: c18_describe k') ++ c18_setters fuel' r k'
        else let k' := jwk_from_params (mk a b) in (1 :: c18_describe k') ++ c18_setters fuel' r k'
    | _ => []
    end
  end.

Fixpoint c18_take_members (n : nat) (l : list Z) : option (list (list N * list N)) :=
  match n with
  | O => Some []
  | S m => match take_lp l with
           | Some (name, r) => match take_lp r with
                               | Some (v, r') => match c18_take_members m r' with Some ms => Some ((bytes_of name, bytes_of v) :: ms) | None => None end
                               | None => None end
           | None => None end
  end.
Definition c18_run (input : list Z) : list Z :=
  match input with
  | kind :: r =>
    if kind =? 1 then
      match r with
      | kty :: has_ops :: r1 =>
          match take_lp r1 with
          | Some (ops, r2) =>
              match take_lp r2 with
              | Some (members, []) =>
                  let m := map (fun n => (n, 1000 + n)) members in
                  match jwk_deser (c18_kty kty) (if bz has_ops then Some (map c18_op ops) else None) m with
                  | None => [0]
                  | Some k =>
                      1 :: c18_describe k ++
                      (match jwk_to_public k with
                       | None => [0]
                       | Some p => 1 :: jkty_code (j_kty p) :: put_lp (c18_json_members p)
                                   ++ (match j_ops p with Some l => 1 :: put_lp (map c18_op_code l) | None => [0; 0] end)
                                   ++ [match jwk_to_public p with Some q => zb (jwk_eqb_shallow p q) | None => 0 end]
                       end)
                      ++ put_lp (c18_ids (jwk_thumbprint_input k)) ++ put_lp (c18_json_members k)
                  end
              | _ => ERR_DECODE
              end
          | None => ERR_DECODE
          end
      | _ => ERR_DECODE
      end
    else if kind =? 2 then
      match r with
      | k0 :: ops => c18_describe (jwk_new (c18_kty k0)) ++ c18_setters (length ops) ops (jwk_new (c18_kty k0))
      | _ => ERR_DECODE
      end
    else if kind =? 3 then
      (* conversion from the foreign key type: declared kty, shape (0 elliptic curve, 1 octet key pair), private, x5u (0 none 1 url 2 not a url), kid *)
      match r with
      | [decl; shape; priv; x5u; kid] =>
          let d := if bz priv then Some 1004 else None in
          let f := {| f_declared := c18_kty decl; f_params := if shape =? 0 then FEc 1001 1002 1003 d else FOkp 1001 1002 d;
                      f_kid := if bz kid then Some 1023 else None;
                      f_x5u := if x5u =? 0 then None else Some (x5u =? 1, 1024); f_x5c := None; f_x5t := None |} in
          match jwk_from_foreign false f with
          | CvOk k => 1 :: c18_describe k ++ put_lp (c18_json_members k)
          | CvErr => [0]
          | CvPanic => [-777]
          end
      | _ => ERR_DECODE
      end
    else if kind =? 4 then
      (* byte-level thumbprint: declared kty, parameter family, n, (name, value)* as byte strings -> hash input text, base64url of its SHA-256 *)
      match r with
      | kty :: fam :: n :: r1 =>
          match c18_take_members (Z.to_nat n) r1 with
          | Some ms =>
              let get (name : list N) := match find (fun nv => if list_eq_dec N.eq_dec (fst nv) name then true else false) ms with Some nv => snd nv | None => [] end in
              put_lp (zs_of (thumb_text (c18_kty kty) (c18_kty fam) get)) ++ put_lp (zs_of (thumbprint_b64 (c18_kty kty) (c18_kty fam) get))
          | None => ERR_DECODE
          end
      | _ => ERR_DECODE
      end
    else ERR_DECODE
  | [] => ERR_DECODE
  end.
