(* Wire-level entry point of the C16 model (SD-JWT credentials and key-binding JWTs).
   kind 1: sd_decodes <C02 token> <C02 issuers> <C02 opts>            -> as C02 (validate with the first issuer)
   kind 3: as kind 1, but SdJwtCredentialValidator::verify_signature over ALL the trusted issuers (no units)
   kind 2: now present sd_ok digest decodes typ? kidtag [d r f] sigkey claimsflag [sd_hash nonce aud iat]
           <C04 document of the holder> nonce? aud? midflag [d r f] scope earliest? latest?
           -> 0 sd_hash nonce aud iat | 1 err | -777 (panic) *)
From Coq Require Import List ZArith Bool.
From IdV Require Import Lib.Wire Lib.Outcome Doc.Doc Cred.Validate Cred.SdJwt Run.C04Run Run.C07Run Run.C02Run.
Import ListNotations.
Open Scope Z_scope.

Definition rkb : rd kbtoken :=
  p <- rb ;; s <- rb ;; dg <- rz ;; dc <- rb ;; ty <- ro ;; kt <- rz ;;
  k <- (if kt =? 2 then (u <- rurl ;; ret (Kid u)) else ret (if kt =? 0 then KidAbsent else KidUnparsable)) ;;
  sk <- rz ;; cf <- rz ;;
  c <- (if cf =? 0 then ret None else (a <- rz ;; b <- rz ;; c <- rz ;; d <- rz ;; ret (Some {| kc_sd_hash := a; kc_nonce := b; kc_aud := c; kc_iat := d |}))) ;;
  ret {| kb_present := p; kb_sd_ok := s; kb_digest := dg; kb_decodes := dc; kb_typ := ty; kb_kid := k; kb_sig_ok := fun key => key =? sk; kb_claims := c |}.
Definition rkbopts : rd kbopts :=
  n <- ro ;; a <- ro ;; mf <- rz ;; mid <- (if mf =? 0 then ret None else (u <- rurl ;; ret (Some u))) ;; sc <- rz ;; e <- ro ;; l <- ro ;;
  ret {| ko_nonce := n; ko_aud := a; ko_method_id := mid; ko_scope := if sc <? 0 then None else Some (c04_scope sc); ko_earliest := e; ko_latest := l |}.
Definition kberr_code (e : kberr) : Z :=
  match e with KMissing => 1 | KSdJwt => 2 | KDecode => 2 | KTyp => 4 | KKidMissing => 5 | KKidParse => 6 | KMethodLookup => 7 | KSignature => 8 | KClaims => 9
             | KDigest => 10 | KNonce => 11 | KAud => 12 | KIatRange => 13 | KIatEarly => 14 | KIatLate => 15 | KIatFuture => 16 end.
Definition c16_run (input : list Z) : list Z :=
  match input with
  | k :: l =>
    if k =? 1 then
      match (sd <- rb ;; t <- rtoken ;; is <- rlist rissuer ;; o <- ropts ;; ret (sd, t, is, o)) l with
      | Some ((sd, t, is, (o, ff)), _) =>
          match is with
          | i :: _ => match sd_validate {| sd_tok := t; sd_decodes := sd |} i o ff with inl c => 0 :: w_vcred c | inr es => 1 :: Z.of_nat (length es) :: map verr_code es end
          | [] => ERR_DECODE end
      | None => ERR_DECODE end
    else if k =? 3 then
      match (sd <- rb ;; t <- rtoken ;; is <- rlist rissuer ;; o <- ropts ;; ret (sd, t, is, o)) l with
      | Some ((sd, t, is, (o, ff)), _) =>
          match sd_verify_signature {| sd_tok := t; sd_decodes := sd |} is o with inl c => 0 :: w_vcred c | inr e => [1; 1; verr_code e] end
      | None => ERR_DECODE end
    else if k =? 2 then
      match (now <- rz ;; t <- rkb ;; h <- rdoc ;; o <- rkbopts ;; ret (now, t, h, o)) l with
      | Some ((now, t, h, o), _) =>
          match validate_kb now t h o with
          | Ok c => [0; kc_sd_hash c; kc_nonce c; kc_aud c; kc_iat c]
          | Err e => [1; kberr_code e]
          | Panic => [-777] end
      | None => ERR_DECODE end
    else ERR_DECODE
  | [] => ERR_DECODE end.
