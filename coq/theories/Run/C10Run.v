(* Wire-level entry points of the C10 (DID / DID URL) and C17 (IOTA DID) models. *)
From Coq Require Import List ZArith NArith Bool.
From IdV Require Import Lib.Wire Lib.Outcome Did.DidParse Did.IotaDid.
Import ListNotations.
Open Scope Z_scope.

Definition zbytes (l : list N) : list Z := put_lp (zs_of l).
Definition zopt (o : option (list N)) : list Z := match o with Some l => 1 :: zbytes l | None => [0; 0] end.

Definition c10_url_obs (u : did_url) : list Z :=
  1 :: zbytes (did_url_to_string u) ++ zbytes (u_method u) ++ zbytes (u_mid u) ++ zopt (u_path u) ++ zopt (u_query u) ++ zopt (u_frag u).

Definition c10_take_opt (l : list Z) : option (option (list N) * list Z) :=
  match l with
  | f :: r => match take_lp r with
              | Some (bs, r') => Some (if bz f then Some (bytes_of bs) else None, r')
              | None => None end
  | [] => None
  end.

Definition c10_run (input : list Z) : list Z :=
  match input with
  | kind :: r =>
    if kind =? 1 then
      match take_lp r with
      | Some (bs, []) =>
          match core_did_parse (bytes_of bs) with
          | Ok (m, i) => 1 :: zbytes m ++ zbytes i
          | Err _ => [0]
          | Panic => [-777]
          end
      | _ => ERR_DECODE
      end
    else if kind =? 2 then
      match take_lp r with
      | Some (bs, []) =>
          match did_url_split_parse (bytes_of bs) with
          | Ok u => c10_url_obs u
          | Err _ => [0]
          | Panic => [-777]
          end
      | _ => ERR_DECODE
      end
    else if kind =? 3 then
      match take_lp r with
      | Some (bs, op :: r1) =>
          match c10_take_opt r1 with
          | Some (v, []) =>
              match did_url_split_parse (bytes_of bs) with
              | Ok u =>
                  let res := if op =? 0 then set_path v else if op =? 1 then set_query v else set_fragment v in
                  match res with
                  | Ok c =>
                      let u' := if op =? 0 then {| u_did := u_did u; u_method := u_method u; u_mid := u_mid u; u_path := c; u_query := u_query u; u_frag := u_frag u |}
                                else if op =? 1 then {| u_did := u_did u; u_method := u_method u; u_mid := u_mid u; u_path := u_path u; u_query := c; u_frag := u_frag u |}
                                else {| u_did := u_did u; u_method := u_method u; u_mid := u_mid u; u_path := u_path u; u_query := u_query u; u_frag := c |} in
                      1 :: zbytes (did_url_to_string u')
                  | Err _ => 0 :: zbytes (did_url_to_string u)
                  | Panic => [-777]
                  end
              | Err _ => [-2]
              | Panic => [-777]
              end
          | _ => ERR_DECODE
          end
      | _ => ERR_DECODE
      end
    else if kind =? 4 then
      match take_lp r with
      | Some (bs, op :: r1) =>
          match take_lp r1 with
          | Some (v, []) =>
              match core_did_parse (bytes_of bs) with
              | Ok (m, i) =>
                  let v := bytes_of v in
                  let prefix := [100%N; 105%N; 100%N; 58%N] in
                  if op =? 0 then
                    (if negb (is_nil v) && valid_method_name v then 1 :: zbytes (prefix ++ v ++ [58%N] ++ i) else 0 :: zbytes (prefix ++ m ++ [58%N] ++ i))
                  else
                    (if negb (is_nil v) && valid_method_id v then 1 :: zbytes (prefix ++ m ++ [58%N] ++ v) else 0 :: zbytes (prefix ++ m ++ [58%N] ++ i))
              | Err _ => [-2]
              | Panic => [-777]
              end
          | _ => ERR_DECODE
          end
      | _ => ERR_DECODE
      end
    else if kind =? 7 then
      (* every construction route: 7 to a CoreDID (parse x4, TryFrom<BaseDIDUrl>, serde = TryFrom<BaseDIDUrl> of the deserialised third-party value, the DID of a DIDUrl), 6 to a DIDUrl (parse x4, to_url, into_url) *)
      match take_lp r with
      | Some (bs, []) =>
          let s := bytes_of bs in
          let od (x : outcome (list N * list N) did_err) := match x with Ok (m, i) => 1 :: zbytes ([100%N; 105%N; 100%N; 58%N] ++ m ++ [58%N] ++ i) | Err _ => [0] | Panic => [-777] end in
          let ou (x : outcome did_url did_err) := match x with Ok u => 1 :: zbytes (did_url_to_string u) | Err _ => [0] | Panic => [-777] end in
          let viaurl := match did_url_split_parse s with Ok u => 1 :: zbytes (u_did u) | Err _ => [0] | Panic => [-777] end in
          let tourl := match core_did_parse s with Ok (m, i) => 1 :: zbytes ([100%N; 105%N; 100%N; 58%N] ++ m ++ [58%N] ++ i) | Err _ => [0] | Panic => [-777] end in
          od (core_did_parse s) ++ od (core_did_parse s) ++ od (core_did_parse s) ++ od (core_did_parse s) ++ od (core_did_from_base s) ++ od (core_did_parse s) ++ viaurl
          ++ ou (did_url_split_parse s) ++ ou (did_url_split_parse s) ++ ou (did_url_split_parse s) ++ ou (did_url_split_parse s) ++ tourl ++ tourl
      | _ => ERR_DECODE
      end
    else if kind =? 6 then
      (* Eq / Ord / Hash of two parsed DID URLs: eq, cmp (0 less, 1 equal, 2 greater), equal hasher input *)
      match take_lp r with
      | Some (a, r1) =>
          match take_lp r1 with
          | Some (b, []) =>
              match did_url_split_parse (bytes_of a), did_url_split_parse (bytes_of b) with
              | Ok x, Ok y => [zb (url_eqb x y); match url_cmp x y with Lt => 0 | Eq => 1 | Gt => 2 end; zb (list_eqb (url_hash_input x) (url_hash_input y))]
              | _, _ => []
              end
          | _ => ERR_DECODE
          end
      | None => ERR_DECODE
      end
    else if kind =? 5 then
      (* join (start, segment): 1 + string form of the joined value | 0 *)
      match take_lp r with
      | Some (a, r1) =>
          match take_lp r1 with
          | Some (sg, []) =>
              match did_url_split_parse (bytes_of a) with
              | Ok u => match did_url_join u (bytes_of sg) with
                        | Ok j => 1 :: zbytes (did_url_to_string j)
                        | Err _ => [0]
                        | Panic => [-777]
                        end
              | _ => []
              end
          | _ => ERR_DECODE
          end
      | None => ERR_DECODE
      end
    else []
  | [] => ERR_DECODE
  end.

Definition c17_value_obs (v : list N) : list Z :=
  1 :: zbytes (iota_to_string v) ++ zbytes (iota_network v) ++ zbytes (iota_tag v).

Definition c17_run (input : list Z) : list Z :=
  match input with
  | kind :: r =>
    if kind =? 1 then
      match take_lp r with
      | Some (bs, []) =>
          match iota_parse (bytes_of bs) with
          | Ok v => c17_value_obs v
          | Err _ => [0]
          | Panic => [-777]
          end
      | _ => ERR_DECODE
      end
    else if kind =? 2 then
      (* new(tag, network): tag given as 64 hex characters; network any bytes *)
      match take_lp r with
      | Some (tg, r1) =>
          match take_lp r1 with
          | Some (nw, []) =>
              if negb (net_ok (bytes_of nw)) then [0]
              else match iota_new (bytes_of tg) (bytes_of nw) with
                   | Ok v => c17_value_obs v
                   | _ => [-777]
                   end
          | _ => ERR_DECODE
          end
      | None => ERR_DECODE
      end
    else if kind =? 3 then
      match take_lp r with
      | Some (a, r1) =>
          match take_lp r1 with
          | Some (b, []) =>
              match iota_parse (bytes_of a), iota_parse (bytes_of b) with
              | Ok x, Ok y => [zb (list_eqb x y); zb (list_eqb (iota_network x) (iota_network y) && list_eqb (iota_tag x) (iota_tag y))]
              | _, _ => [-2]
              end
          | _ => ERR_DECODE
          end
      | None => ERR_DECODE
      end
    else if kind =? 4 then
      (* one string through every construction route: parse, FromStr, TryFrom<&str>, TryFrom<String>, try_from_core, TryFrom<CoreDID>,
         TryFrom<BaseDIDUrl>, serde (= TryFrom<CoreDID> of the deserialised CoreDID), id of a deserialised IotaDocument, controller of a deserialised IotaDocument, controller and id of a document unpacked from state metadata *)
      match take_lp r with
      | Some (bs, []) =>
          let s := bytes_of bs in
          let o (x : outcome (list N) did_err) := match x with Ok v => c17_value_obs v | Err _ => [0] | Panic => [-777] end in
          o (iota_parse s) ++ o (iota_parse s) ++ o (iota_parse s) ++ o (iota_parse s) ++ o (iota_try_from_core s) ++ o (iota_try_from_core s)
          ++ o (iota_try_from_base s) ++ o (iota_try_from_core s) ++ o (iota_doc_id s) ++ o (iota_doc_id s) ++ o (iota_doc_id s) ++ o (iota_doc_id s)
      | _ => ERR_DECODE
      end
    else ERR_DECODE
  | [] => ERR_DECODE
  end.
