(* Wire-level entry point of the C07 model (credential / presentation <-> JWT claims).
   optional member = flag value (flag 0 = absent).  custom = n (name value)*.
   kind 1: cred custom        -> [2] text rejected | 1 err | 0 cred custom'
   kind 2: claims (exp iss iat nbf jti sub  inner)  -> 1 err | 0 cred
   kind 3: pres opts custom   -> [2] | 1 err | 0 pres expires issued aud custom'
   kind 4: pclaims (exp iss iat nbf jti aud  pinner) -> 1 err | 0 pres expires issued aud
   kind 6: mask cred custom   -> [3] create_credential_jwt refuses the signature options | as kind 1 (mask bits as in C08 kind 7, bit 9 = b64(true))
   kind 7: mask pres opts custom -> [3] | as kind 3
   cred  = ctx id? types sub_id? sub_props issuer issued expires? status? schema refresh tou evidence nontransf? props proof?
   inner = ctx id? types issuer? sub_id? sub_props issued? expires? status? schema refresh tou evidence nontransf? props proof?
   pres  = ctx id? types vcs holder refresh tou props proof?      opts = expires? issued? aud?
   pinner = ctx id? types vcs holder? refresh tou props proof? *)
From Coq Require Import List ZArith Bool.
From IdV Require Import Lib.Wire Core.Timestamp Cred.Claims Jose.Header Jose.Policy.
Import ListNotations.
Open Scope Z_scope.

(* a tiny reader monad over the integer list *)
Definition rd (A : Type) := list Z -> option (A * list Z).
Definition rz : rd Z := fun l => match l with x :: r => Some (x, r) | [] => None end.
Definition ro : rd (option Z) := fun l => match l with f :: v :: r => Some (if f =? 0 then None else Some v, r) | _ => None end.
Definition bind {A B} (m : rd A) (f : A -> rd B) : rd B := fun l => match m l with Some (a, r) => f a r | None => None end.
Definition ret {A} (a : A) : rd A := fun l => Some (a, l).
Notation "x <- m ;; k" := (bind m (fun x => k)) (at level 61, m at next level, right associativity).

Definition rd_cred : rd cred :=
  a <- rz ;; b <- ro ;; c <- rz ;; d <- ro ;; e <- rz ;; f <- rz ;; g <- rz ;; h <- ro ;; i <- ro ;; j <- rz ;; k <- rz ;; l <- rz ;; m <- rz ;; n <- ro ;; o <- rz ;; p <- ro ;;
  ret {| c_ctx := a; c_id := b; c_types := c; c_sub_id := d; c_sub_props := e; c_issuer := f; c_issued := g; c_expires := h; c_status := i;
         c_schema := j; c_refresh := k; c_tou := l; c_evidence := m; c_nontransf := n; c_props := o; c_proof := p |}.
Definition rd_inner : rd inner :=
  a <- rz ;; b <- ro ;; c <- rz ;; d <- ro ;; e <- ro ;; f <- rz ;; g <- ro ;; h <- ro ;; i <- ro ;; j <- rz ;; k <- rz ;; l <- rz ;; m <- rz ;; n <- ro ;; o <- rz ;; p <- ro ;;
  ret {| i_ctx := a; i_id := b; i_types := c; i_issuer := d; i_sub_id := e; i_sub_props := f; i_issued := g; i_expires := h; i_status := i;
         i_schema := j; i_refresh := k; i_tou := l; i_evidence := m; i_nontransf := n; i_props := o; i_proof := p |}.
Definition rd_claims : rd claims :=
  a <- ro ;; b <- rz ;; c <- ro ;; d <- ro ;; e <- ro ;; f <- ro ;; v <- rd_inner ;;
  ret {| k_exp := a; k_iss := b; k_iat := c; k_nbf := d; k_jti := e; k_sub := f; k_vc := v |}.
Definition rd_pres : rd pres :=
  a <- rz ;; b <- ro ;; c <- rz ;; d <- rz ;; e <- rz ;; f <- rz ;; g <- rz ;; h <- rz ;; i <- ro ;;
  ret {| p_ctx := a; p_id := b; p_types := c; p_vcs := d; p_holder := e; p_refresh := f; p_tou := g; p_props := h; p_proof := i |}.
Definition rd_popts : rd popts := a <- ro ;; b <- ro ;; c <- ro ;; ret {| o_expires := a; o_issued := b; o_aud := c |}.
Definition rd_pinner : rd pinner :=
  a <- rz ;; b <- ro ;; c <- rz ;; d <- rz ;; e <- ro ;; f <- rz ;; g <- rz ;; h <- rz ;; i <- ro ;;
  ret {| pi_ctx := a; pi_id := b; pi_types := c; pi_vcs := d; pi_holder := e; pi_refresh := f; pi_tou := g; pi_props := h; pi_proof := i |}.
Definition rd_pclaims : rd pclaims :=
  a <- ro ;; b <- rz ;; c <- ro ;; d <- ro ;; e <- ro ;; f <- ro ;; v <- rd_pinner ;;
  ret {| pk_exp := a; pk_iss := b; pk_iat := c; pk_nbf := d; pk_jti := e; pk_aud := f; pk_vp := v |}.
Definition rd_custom : rd custom := fun l => match take_pairs l with Some (ps, r) => Some (ps, r) | None => None end.

Definition wo (o : option Z) : list Z := match o with Some v => [1; v] | None => [0; 0] end.
Definition w_cred (c : cred) : list Z :=
  [c_ctx c] ++ wo (c_id c) ++ [c_types c] ++ wo (c_sub_id c) ++ [c_sub_props c; c_issuer c; c_issued c] ++ wo (c_expires c) ++ wo (c_status c)
  ++ [c_schema c; c_refresh c; c_tou c; c_evidence c] ++ wo (c_nontransf c) ++ [c_props c] ++ wo (c_proof c).
Definition w_pres (p : pres) : list Z :=
  [p_ctx p] ++ wo (p_id p) ++ [p_types p; p_vcs p; p_holder p; p_refresh p; p_tou p; p_props p] ++ wo (p_proof p).
Definition cerr_code (e : cerr) : Z :=
  match e with EIssuer => 1 | EIssued => 2 | EExpires => 3 | EId => 4 | ESubMissing => 5 | ESubMismatch => 6 | ETimestamp => 7 end.
Definition perr_code (e : perr) : Z := match e with PId => 1 | PHolder => 2 | PTimestamp => 3 end.
Definition w_cres (r : res cred cerr) : list Z := match r with ROk c => 0 :: w_cred c | RErr e => [1; cerr_code e] end.
Definition w_pres_res (r : res pdecoded perr) : list Z :=
  match r with ROk d => 0 :: w_pres (d_pres d) ++ wo (d_expires d) ++ wo (d_issued d) ++ wo (d_aud d) | RErr e => [1; perr_code e] end.

Definition opts_of_mask (mask : Z) : sigopts :=
  let bit (k : Z) := Z.testbit mask k in
  {| so_attach_jwk := bit 0; so_b64 := if bit 9 then Some true else if bit 1 then Some false else None; so_cty := bit 3; so_url := bit 4; so_nonce := bit 5;
     so_custom := if bit 8 then Some [101] else None; so_detached := bit 7 |}.
Fixpoint c07_run_f (fuel : nat) (input : list Z) : list Z :=
  match input with
  | k :: l =>
    if (k =? 6) || (k =? 7) then
      match fuel, l with
      | S f, mask :: l' => if jwt_opts_ok (opts_of_mask mask) then c07_run_f f ((if k =? 6 then 1 else 3) :: l') else [3]
      | _, _ => ERR_DECODE end
    else
    if k =? 1 then
      match (c <- rd_cred ;; cu <- rd_custom ;; ret (c, cu)) l with
      | Some ((c, cu), _) => match cred_roundtrip c cu with None => [2] | Some (r, cu') => w_cres r ++ match r with ROk _ => put_pairs cu' | RErr _ => [] end end
      | None => ERR_DECODE end
    else if k =? 2 then
      match rd_claims l with Some (cl, _) => w_cres (from_claims cl) | None => ERR_DECODE end
    else if k =? 3 then
      match (p <- rd_pres ;; o <- rd_popts ;; cu <- rd_custom ;; ret (p, o, cu)) l with
      | Some ((p, o, cu), _) => match pres_roundtrip p o cu with None => [2] | Some (r, cu') => w_pres_res r ++ match r with ROk _ => put_pairs cu' | RErr _ => [] end end
      | None => ERR_DECODE end
    else if k =? 4 then
      match rd_pclaims l with Some (cl, _) => w_pres_res (from_pclaims cl) | None => ERR_DECODE end
    else ERR_DECODE
  | [] => ERR_DECODE end.
Definition c07_run (input : list Z) : list Z := c07_run_f 1 input.
