(* Wire-level entry points of the C01 (decode/verify) and C08 (encode -> decode) models.
   Headers are indices into a table carried by the case: (JSON bytes, parses?, policy view, alg id).
   The table is the recorded answer of serde for exactly the JSON texts / header values that occur
   in the case (the oracle instantiation of parse_header / ser_header).
   JSON glue modelled here (not in Jose/Jws.v): the decoder's borrowed &str fields deserialise only
   from JSON strings that need no escape sequence. *)
From Coq Require Import List ZArith NArith Bool.
From IdV Require Import Lib.Wire Lib.Outcome Lib.Base64 Jose.Header Jose.Policy Jose.Jws Run.C11Run Did.DidParse Jose.Jwk Jose.Verifiers.
Import ListNotations.
Open Scope Z_scope.

Record hentry := { he_json : list N; he_parses : bool; he_view : hdr; he_alg : option Z }.
Definition dummy_hdr : hdr := {| h_alg := false; h_b64 := None; h_crit := None; h_common := []; h_custom := None |}.

Section Tab.
  Variable tab : list hentry.
  Definition t_view (i : nat) : hdr := match nth_error tab i with Some e => he_view e | None => dummy_hdr end.
  Definition t_alg (i : nat) : option Z := match nth_error tab i with Some e => he_alg e | None => None end.
  Definition t_ser (i : nat) : list N := match nth_error tab i with Some e => he_json e | None => [] end.
  Fixpoint t_find (js : list N) (l : list hentry) (i : nat) : option nat :=
    match l with
    | [] => None
    | e :: r => if list_eqb (he_json e) js && he_parses e then Some i else t_find js r (S i)
    end.
  Definition t_parse (js : list N) : option nat := t_find js tab O.
End Tab.

(* table entry: <lp json> parses <hdr as in C11 (present flag ignored)> algv(-1 = none) *)
Fixpoint js_take_table (n : nat) (l : list Z) : option (list hentry * list Z) :=
  match n with
  | O => Some ([], l)
  | S n' =>
      match take_lp l with
      | Some (js, p :: r) =>
          match c11_take_hdr r with
          | Some (oh, a :: r2) =>
              match js_take_table n' r2 with
              | Some (es, r3) =>
                  Some ({| he_json := bytes_of js; he_parses := bz p;
                           he_view := match oh with Some h => h | None => dummy_hdr end;
                           he_alg := if a <? 0 then None else Some a |} :: es, r3)
              | None => None end
          | _ => None end
      | _ => None end
  end.

Definition js_take_optbytes (l : list Z) : option (option (list N) * list Z) :=
  match l with
  | f :: r => match take_lp r with Some (bs, r') => Some (if bz f then Some (bytes_of bs) else None, r') | None => None end
  | [] => None
  end.
Definition js_take_optidx (l : list Z) : option (option nat * list Z) :=
  match l with i :: r => Some (if i <? 0 then None else Some (Z.to_nat i), r) | [] => None end.

(* a JSON string that serde can hand out as a borrowed &str: no byte that must be escaped *)
Definition json_plain (s : list N) : bool := forallb (fun c => negb ((c <? 32) || (c =? 34) || (c =? 92))%N) s.
Definition ojson_plain (o : option (list N)) : bool := match o with Some s => json_plain s | None => true end.

Definition zb_ (l : list N) : list Z := put_lp (zs_of l).

Definition js_item_obs (tab : list hentry) (it : item nat) (kalg : option Z) (vbit : bool) : list Z :=
  let vres := verify nat (t_alg tab) (fun _ _ _ => vbit) it kalg in
  let called := match it_protected nat it with
                | Some h => match t_alg tab h with
                            | Some a => match kalg with Some k => k =? a | None => true end
                            | None => false end
                | None => false end in
  1 :: zb_ (it_si nat it) ++ zb_ (it_sig nat it) ++ zb_ (it_claims nat it)
    ++ [match it_protected nat it with Some h => Z.of_nat h | None => -1 end;
        match it_unprotected nat it with Some h => Z.of_nat h | None => -1 end;
        zb called;
        match vres with Ok _ => 1 | _ => 0 end].

Definition js_dec (tab : list hentry) := decode_signature nat (t_view tab) (t_parse tab).

(* envelope: payload? protected? header-index signature *)
Definition js_take_env (l : list Z) : option (envelope nat * list Z) :=
  match js_take_optbytes l with
  | Some (pl, r1) =>
      match js_take_optbytes r1 with
      | Some (pr, r2) =>
          match js_take_optidx r2 with
          | Some (hd, r3) =>
              match take_lp r3 with
              | Some (sg, r4) => Some ({| e_payload := pl; e_protected := pr; e_header := hd; e_signature := bytes_of sg |}, r4)
              | None => None end
          | None => None end
      | None => None end
  | None => None
  end.
Definition env_plain (e : envelope nat) : bool :=
  ojson_plain (e_payload nat e) && ojson_plain (e_protected nat e) && json_plain (e_signature nat e).

Fixpoint js_take_envs (n : nat) (l : list Z) : option (list (envelope nat) * list Z) :=
  match n with
  | O => Some ([], l)
  | S n' => match js_take_env l with
            | Some (e, r) => match js_take_envs n' r with Some (es, r') => Some (e :: es, r') | None => None end
            | None => None end
  end.

(* recipients for the general encoder: p-index u-index <lp sig> *)
Fixpoint js_take_recips (n : nat) (l : list Z) : option (list (option nat * option nat * list N) * list Z) :=
  match n with
  | O => Some ([], l)
  | S n' =>
      match js_take_optidx l with
      | Some (p, r1) =>
          match js_take_optidx r1 with
          | Some (u, r2) =>
              match take_lp r2 with
              | Some (sg, r3) =>
                  match js_take_recips n' r3 with
                  | Some (rs, r4) => Some ((p, u, bytes_of sg) :: rs, r4)
                  | None => None end
              | None => None end
          | None => None end
      | None => None end
  end.

Definition obs_dec_back (tab : list hentry) (r : outcome (item nat) jws_err) (si sg payload : list N) (p u : option nat) : list Z :=
  match r with
  | Ok it => [1; zb (list_eqb (it_si nat it) si); zb (list_eqb (it_sig nat it) sg); zb (list_eqb (it_claims nat it) payload);
              zb (match it_protected nat it, p with Some a, Some b => Nat.eqb a b | None, None => true | _, _ => false end
                  && match it_unprotected nat it, u with Some a, Some b => Nat.eqb a b | None, None => true | _, _ => false end)]
  | _ => [0]
  end.

(* case: kind ntable table... then per kind *)
Definition jws_run (input : list Z) : list Z :=
  match input with
  | kind :: nt :: r0 =>
    if kind =? 7 then
      (* create_jws: 7 which mask pc <LP payload>: the protected header the options give, or 0 when the compact encoder refuses the payload *)
      match r0 with
      | mask :: _ :: r1 =>
          match take_lp r1 with
          | Some (payload, _) =>
              let bit (k : Z) := Z.testbit mask k in
              let o := {| so_attach_jwk := bit 0; so_b64 := if bit 1 then Some false else None; so_cty := bit 3; so_url := bit 4; so_nonce := bit 5;
                          so_custom := if bit 8 then Some [101] else None; so_detached := bit 7 |} in
              let h := create_jws_header o in
              if negb (enc_compact h) then [0]
              else if negb (so_detached o) && negb (extract_b64 (Some h)) && negb (charset_ok 0%N (map Z.to_N payload)) then [0]
              else 1 :: 1 :: zb (h_alg h) :: (match h_b64 h with None => 0 | Some true => 1 | Some false => 2 end) :: (match h_crit h with Some _ => 1 | None => 0 end)
                   :: put_lp (match h_crit h with Some l => l | None => [] end) ++ put_lp (filter (fun c => mem c (h_common h)) [3; 4; 5; 6; 7; 8; 9; 10; 11; 12; 13])
                   ++ (match h_custom h with Some _ => 1 | None => 0 end) :: put_lp (match h_custom h with Some l => l | None => [] end)
          | None => ERR_DECODE end
      | _ => ERR_DECODE end
    else
    if kind =? 10 then
      (* the shipped verifiers around their primitive: 10 0 which(0 EdDSAJwsVerifier | 1 EcDSAJwsVerifier) alg(0 EdDSA 1 ES256 2 ES256K 3 other) family
         <crv> <x> <y> <signature> <message> point_ok sig_ok verdict  ->  [0] | [1; error kind] *)
      match r0 with
      | which :: alg :: fam :: r1 =>
          match take_lp r1 with Some (crv, r2) => match take_lp r2 with Some (x, r3) => match take_lp r3 with Some (y, r4) =>
          match take_lp r4 with Some (sg, r5) => match take_lp r5 with Some (msg, pok :: sok :: verdict :: _) =>     (* a trailing flag says the verifier was used under another key before: no influence *)
            let a := if alg =? 0 then AEdDSA else if alg =? 1 then AES256 else if alg =? 2 then AES256K else AOther in
            let k := {| vk_family := (if fam =? 0 then KEc else if fam =? 1 then KRsa else if fam =? 2 then KOct else KOkp);
                        vk_crv := bytes_of crv; vk_x := bytes_of x; vk_y := bytes_of y |} in
            let r := if which =? 0 then eddsa_jws_verify (fun _ => bz pok) (fun _ _ _ => bz verdict) a k (bytes_of sg) (bytes_of msg)
                     else ecdsa_jws_verify (fun _ _ => bz pok) (fun _ _ => bz sok) (fun _ _ _ _ => bz verdict) a k (bytes_of sg) (bytes_of msg) in
            match r with None => [0] | Some e => [1; match e with UnsupportedAlg => 1 | UnsupportedKeyType => 2 | UnsupportedKeyParams => 3 | KeyDecodingFailure => 4 | InvalidSignature => 5 end] end
          | _ => ERR_DECODE end | None => ERR_DECODE end | None => ERR_DECODE end | None => ERR_DECODE end | None => ERR_DECODE end
      | _ => ERR_DECODE end
    else
    if (kind =? 8) || (kind =? 9) then [] else   (* real-key rows (Ed25519 bit flips, ECDSA curve / alg table): property oracle only *)
    match js_take_table (Z.to_nat nt) r0 with
    | None => ERR_DECODE
    | Some (tab, r) =>
      let dec_compact := decode_compact nat (t_view tab) (t_parse tab) in
      let dec_env := decode_envelope nat (t_view tab) (t_parse tab) in
      if kind =? 1 then
        (* compact decode+verify: <lp tok> det? kalg vbit *)
        match take_lp r with
        | Some (tok, r1) =>
            match js_take_optbytes r1 with
            | Some (det, [kalg; vbit]) =>
                match dec_compact (bytes_of tok) det with
                | Ok it => js_item_obs tab it (if kalg <? 0 then None else Some kalg) (bz vbit)
                | _ => [0]
                end
            | _ => ERR_DECODE
            end
        | None => ERR_DECODE
        end
      else if kind =? 2 then
        (* flattened decode+verify: envelope det? kalg vbit *)
        match js_take_env r with
        | Some (e, r1) =>
            match js_take_optbytes r1 with
            | Some (det, [kalg; vbit]) =>
                if negb (env_plain e) then [0] else
                match dec_env e det with
                | Ok it => js_item_obs tab it (if kalg <? 0 then None else Some kalg) (bz vbit)
                | _ => [0]
                end
            | _ => ERR_DECODE
            end
        | None => ERR_DECODE
        end
      else if kind =? 3 then
        (* general decode: payload? n signatures det? kalg vbit -> one observation per signature *)
        match js_take_optbytes r with
        | Some (pl, n :: r1) =>
            match js_take_envs (Z.to_nat n) r1 with
            | Some (es, r2) =>
                match js_take_optbytes r2 with
                | Some (det, [kalg; vbit]) =>
                    if negb (ojson_plain pl && forallb env_plain es) then [0] else
                    match decode_general nat (t_view tab) (t_parse tab) pl es det with
                    | Ok items =>
                        1 :: flat_map (fun r =>
                          match r with
                          | Ok it => js_item_obs tab it (if kalg <? 0 then None else Some kalg) (bz vbit)
                          | _ => [0] end) items
                    | _ => [0]
                    end
                | _ => ERR_DECODE
                end
            | None => ERR_DECODE
            end
        | _ => ERR_DECODE
        end
      else if kind =? 4 then
        (* compact encode then decode: header-index <lp payload> mode(0 detached,1 default,2 urlsafe) <lp sig> *)
        match r with
        | h :: r1 =>
            match take_lp r1 with
            | Some (pl, mode :: r2) =>
                match take_lp r2 with
                | Some (sg, []) =>
                    let payload := bytes_of pl in let sgb := bytes_of sg in
                    let nd := if mode =? 0 then None else Some (Z.to_N (mode - 1)) in
                    match enc_compact_new nat (t_view tab) (t_ser tab) payload (Z.to_nat h) nd with
                    | Ok e =>
                        let tok := compact_into_jws e sgb in
                        let det := if mode =? 0 then Some (encode_if_b64 nat (t_view tab) payload (Some (Z.to_nat h))) else None in
                        1 :: zb_ tok ++ zb_ (ce_si e)
                          ++ obs_dec_back tab (dec_compact tok det) (ce_si e) sgb payload (Some (Z.to_nat h)) None
                    | _ => [0]
                    end
                | _ => ERR_DECODE
                end
            | _ => ERR_DECODE
            end
        | _ => ERR_DECODE
        end
      else if kind =? 5 then
        (* flattened encode then decode: p-index u-index <lp payload> detached utf8ok <lp sig> *)
        match js_take_optidx r with
        | Some (p, r1) =>
            match js_take_optidx r1 with
            | Some (u, r2) =>
                match take_lp r2 with
                | Some (pl, detached :: u8 :: r3) =>
                    match take_lp r3 with
                    | Some (sg, []) =>
                        let payload := bytes_of pl in let sgb := bytes_of sg in
                        match enc_flattened_new nat (t_view tab) (t_ser tab) (fun _ => bz u8) payload p u (bz detached) with
                        | Ok e =>
                            let env := json_envelope nat e sgb in
                            let det := if bz detached then Some (encode_if_b64 nat (t_view tab) payload p) else None in
                            1 :: zb_ (je_si nat e)
                              ++ (if env_plain env then obs_dec_back tab (dec_env env det) (je_si nat e) sgb payload p u else [0])
                        | _ => [0]
                        end
                    | _ => ERR_DECODE
                    end
                | _ => ERR_DECODE
                end
            | None => ERR_DECODE
            end
        | None => ERR_DECODE
        end
      else if kind =? 6 then
        (* general encode then decode: <lp payload> detached utf8ok n recipients *)
        match take_lp r with
        | Some (pl, detached :: u8 :: n :: r1) =>
            match js_take_recips (Z.to_nat n) r1 with
            | Some (rs, []) =>
                let payload := bytes_of pl in
                match enc_general nat (t_view tab) (t_ser tab) (fun _ => bz u8) payload rs (bz detached) with
                | Ok (pl_out, envs) =>
                    let p0 := match rs with (p0, _, _) :: _ => p0 | [] => None end in
                    let det := if bz detached then Some (encode_if_b64 nat (t_view tab) payload p0) else None in
                    1 :: (if ojson_plain pl_out && forallb env_plain envs then
                            match expand_payload det pl_out with
                            | None => [0]
                            | Some pay =>
                                1 :: flat_map (fun re =>
                                  let '((p, u, sg), e) := re in
                                  obs_dec_back tab (js_dec tab pay (e_header nat e) (e_protected nat e) (e_signature nat e))
                                               (general_si nat (t_view tab) (t_ser tab) payload p0 p) sg payload p u)
                                  (combine rs envs)
                            end
                          else [0])
                | _ => [0]
                end
            | _ => ERR_DECODE
            end
        | _ => ERR_DECODE
        end
      else []     (* kind 7: storage-backed create_jws / verify_jws rows: property oracle only *)
    end
  | _ => ERR_DECODE
  end.
