(* Wire-level entry point of the C06 model (revocation bitmaps).
   zlib is recorded per case as a table (roaring bytes <-> z bytes); the roaring bytes themselves are computed / decoded by the model.
   kind 1: <LP set> <LP rbytes> <LP zbytes>          -> len c0 c1 c2 of the endpoint text, then result of try_from(to_service)
   kind 2: <LP set> <LP rbytes> <LP zbytes>          -> result of decoding the legacy double-encoded form of the same text
   kind 3: type_ok eptag <LP text> ntab (<LP zbytes> flag <LP inflated bytes>)..      -> result of try_from on that service (eptag 1 = single url)
   kind 4: nsvc (d r f type_ok bitmapflag <LP set>).. nops (op qd? qf? <LP idxs>).. ntab (<LP rbytes> <LP zbytes>)..
           op 0 revoke, 1 unrevoke; after every op: ok flag, then per service the result of resolving it by its own id
   kind 5: type_ok propkind <LP prop> idkind <LP query> id_ok n (<LP decoded index value>).. <LP set> i
           -> try_from (0 index | 1), check_status over a service holding the set (0 valid 1 revoked 2 invalid status), new(i) accepted (0 i | 1)
   result = 0 n digest | 1           digest = all members when n <= 64, else sum-mod-2^61 first last *)
From Coq Require Import List ZArith NArith Bool.
From IdV Require Import Lib.Wire Lib.Base64 Doc.Doc Cred.Bitmap Cred.Roaring Cred.BitmapStatus Run.C04Run Run.C07Run Run.C02Run.
Import ListNotations.
Open Scope Z_scope.

Definition nl (l : list Z) : list N := map Z.to_N l.
Definition zl (l : list N) : list Z := map Z.of_N l.
Fixpoint nl_eqb (a b : list N) : bool :=
  match a, b with [], [] => true | x :: a', y :: b' => N.eqb x y && nl_eqb a' b' | _, _ => false end.
Definition digest (s : list N) : list Z :=
  let n := length s in
  if (n <=? 64)%nat then Z.of_nat n :: zl s
  else [Z.of_nat n; Z.of_N (fold_left (fun a x => N.modulo (a + x) 2305843009213693952) s 0%N); Z.of_N (hd 0%N s); Z.of_N (last s 0%N)].
Definition w_res (r : option (list N)) : list Z := match r with Some s => 0 :: digest s | None => [1] end.
Definition rlp : rd (list N) := fun l => match take_lp l with Some (a, b) => Some (nl a, b) | None => None end.

Definition tab_comp (tab : list (list N * list N)) (s : list N) : list N :=
  match find (fun e => nl_eqb (fst e) s) tab with Some e => snd e | None => [0%N] end.
Definition tab_decomp (tab : list (list N * option (list N))) (z : list N) : option (list N) :=
  match find (fun e => nl_eqb (fst e) z) tab with Some e => snd e | None => None end.
Definition inv_tab (tab : list (list N * list N)) : list (list N * option (list N)) := map (fun e => (snd e, Some (fst e))) tab.

Definition rsvc4 : rd (url * bool * option (list N)) :=
  u <- rurl ;; t <- rb ;; bf <- rz ;; s <- rlp ;; ret (u, t, if bf =? 0 then None else Some s).
Definition rop4 : rd (Z * query * list N) :=
  op <- rz ;; qd <- ro ;; qf <- ro ;; idxs <- rlp ;; ret (op, {| q_did := qd; q_frag := qf |}, idxs).
Definition rtab4 : rd (list N * list N) := s <- rlp ;; z <- rlp ;; ret (s, z).
Definition rtab3 : rd (list N * option (list N)) := z <- rlp ;; f <- rz ;; s <- rlp ;; ret (z, if f =? 0 then None else Some s).

Definition c06_kind4 (svcs : list (url * bool * option (list N))) (ops : list (Z * query * list N)) (tab : list (list N * list N)) : list Z :=
  let comp := comp_r (tab_comp tab) in let decomp := decomp_r (tab_decomp (inv_tab tab)) in
  let d0 : bdoc := map (fun e => match e with (u, t, so) => {| bs_id := u; bs_type_ok := t; bs_ep := (match so with Some s => to_endpoint comp s | None => EpOther end) |} end) svcs in
  let observe (d : bdoc) := flat_map (fun sv => w_res (resolve_bitmap decomp legacy_fixed d (query_of_url (bs_id sv)))) d in
  snd (fold_left (fun (acc : bdoc * list Z) o =>
         match o with (op, q, idxs) =>
           let r := if op =? 0 then revoke_credentials comp decomp legacy_fixed (fst acc) q idxs else unrevoke_credentials comp decomp legacy_fixed (fst acc) q idxs in
           match r with Some d' => (d', snd acc ++ 0 :: observe d') | None => (fst acc, snd acc ++ 1 :: observe (fst acc)) end
         end) ops (d0, observe d0)).

Definition c06_run (input : list Z) : list Z :=
  match input with
  | k :: l =>
    if (k =? 1) || (k =? 2) then
      match (s <- rlp ;; rb <- rlp ;; z <- rlp ;; ret (s, rb, z)) l with
      | Some ((s, rb, z), _) =>
          let comp := comp_r (tab_comp [(rb, z)]) in let decomp := decomp_r (tab_decomp [(z, Some rb)]) in
          let text := ser64 comp s in
          if k =? 1 then Z.of_nat (length text) :: zl (firstn 3 text) ++ w_res (try_from_service decomp legacy_fixed (to_service comp (c04_url 1 0 7) s))
          else w_res (deser64 decomp legacy_fixed (b64s_encode text))
      | None => ERR_DECODE end
    else if k =? 3 then
      match (t <- rb ;; e <- rz ;; x <- rlp ;; tab <- rlist rtab3 ;; ret (t, e, x, tab)) l with
      | Some ((t, e, x, tab), _) =>
          w_res (try_from_service (decomp_r (tab_decomp tab)) legacy_fixed {| bs_id := c04_url 1 0 7; bs_type_ok := t; bs_ep := if e =? 1 then EpOne x else EpOther |})
      | None => ERR_DECODE end
    else if k =? 4 then
      match (sv <- rlist rsvc4 ;; ops <- rlist rop4 ;; tab <- rlist rtab4 ;; ret (sv, ops, tab)) l with
      | Some ((sv, ops, tab), _) => c06_kind4 sv ops tab
      | None => ERR_DECODE end
    else if k =? 5 then
      match (t <- rb ;; pk <- rz ;; p <- rlp ;; idk <- rz ;; q <- rlp ;; idok <- rb ;; vals <- rlist rlp ;; s <- rlp ;; i <- rz ;; ret (t, pk, p, idk, idok, vals, s, i)) l with
      | Some ((t, pk, p, idk, idok, vals, s, i), _) =>
          let st := {| bst_type_ok := t; bst_prop := if pk =? 0 then IpAbsent else if pk =? 1 then IpNotString else IpStr p; bst_query_index := vals |} in
          (match status_try_from st with Some n => [0; Z.of_N n] | None => [1] end)
          ++ [Z.of_N (status_check st idok s)]
          ++ (match status_try_from (status_new (Z.to_N i)) with Some n => [0; Z.of_N n] | None => [1] end)
      | None => ERR_DECODE end
    else ERR_DECODE
  | [] => ERR_DECODE end.
