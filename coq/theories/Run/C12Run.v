(* Wire-level entry point of the C12 model (StatusList2021). *)
From Coq Require Import List ZArith NArith Bool.
From IdV Require Import Lib.Wire Lib.Outcome Cred.StatusList.
Import ListNotations.
Open Scope Z_scope.

Fixpoint c12_sparse (idx : Z) (l : list N) : list (Z * Z) :=
  match l with
  | [] => []
  | b :: r => if (b =? 0)%N then c12_sparse (idx + 1) r else (idx, Z.of_N b) :: c12_sparse (idx + 1) r
  end.

Definition c12_err_code (e : sl_err) : Z :=
  match e with SlIndexOutOfBounds => 1 | SlUnreversible => 2 | SlInvalidEncoding => 3 | SlInvalidListSize => 4 end.

Fixpoint c12_gets (l : list N) (i : Z) (n : nat) : list Z :=
  match n with
  | O => []
  | S n' => (match sl_get l (Z.to_N i) with Ok b => zb b | Err _ => -1 | Panic => -777 end) :: c12_gets l (i + 1) n'
  end.

(* ops on a plain list: 0 i v = set, 1 i = get *)
Fixpoint c12_list_ops (fuel : nat) (ops : list Z) (l : list N) : list Z * list N :=
  match fuel with
  | O => ([], l)
  | S fuel' =>
    match ops with
    | t :: i :: r =>
        if t =? 0 then
          match r with
          | v :: r' =>
              match sl_set l (Z.to_N i) (bz v) with
              | Ok l' => let '(o, lf) := c12_list_ops fuel' r' l' in (1 :: o, lf)
              | Err _ => let '(o, lf) := c12_list_ops fuel' r' l in (0 :: o, lf)
              | Panic => ([-777], l)
              end
          | [] => ([-999], l)
          end
        else
          match sl_get l (Z.to_N i) with
          | Ok b => let '(o, lf) := c12_list_ops fuel' r l in (1 :: zb b :: o, lf)
          | Err _ => let '(o, lf) := c12_list_ops fuel' r l in (0 :: o, lf)
          | Panic => ([-777], l)
          end
    | [] => ([], l)
    | _ => ([-999], l)
    end
  end.

(* ops on a credential: 0 i v / 1 i v = write (two public routes, same logic), 2 i = entry *)
Fixpoint c12_take_pairs (n : nat) (l : list Z) : list (N * bool) * list Z :=
  match n, l with
  | S n', i :: v :: r => let '(ps, rest) := c12_take_pairs n' r in ((Z.to_N i, bz v) :: ps, rest)
  | _, _ => ([], l)
  end.
Fixpoint c12_cred_ops (fuel : nat) (ops : list Z) (c : sl_cred) : list Z * sl_cred :=
  match fuel with
  | O => ([], c)
  | S fuel' =>
    match ops with
    | t :: i :: r =>
        if t =? 2 then
          let here := match sl_entry c (Z.to_N i) with
                      | Ok StValid => 10 | Ok StRevoked => 11 | Ok StSuspended => 12
                      | Err e => c12_err_code e | Panic => -777 end in
          let '(o, cf) := c12_cred_ops fuel' r c in (here :: o, cf)
        else if (t =? 3) || (t =? 4) then
          (* i = number of pairs *)
          let '(pairs, r1) := c12_take_pairs (Z.to_nat i) r in
          if t =? 3 then let '(o, cf) := c12_cred_ops fuel' r1 (sl_update_best_effort c pairs) in (0 :: o, cf)
          else match sl_update_all c pairs with
               | (c', Ok _) => let '(o, cf) := c12_cred_ops fuel' r1 c' in (0 :: o, cf)
               | (c', Err e) => let '(o, cf) := c12_cred_ops fuel' r1 c' in (c12_err_code e :: o, cf)
               | (_, Panic) => ([-777], c)
               end
        else
          match r with
          | v :: r' =>
              match sl_set_entry c (Z.to_N i) (bz v) with
              | Ok c' => let '(o, cf) := c12_cred_ops fuel' r' c' in (0 :: o, cf)
              | Err e => let '(o, cf) := c12_cred_ops fuel' r' c in (c12_err_code e :: o, cf)
              | Panic => ([-777], c)
              end
          | [] => ([-999], c)
          end
    | [] => ([], c)
    | _ => ([-999], c)
    end
  end.

Definition c12_purpose (z : Z) : sl_purpose := if z =? 0 then PRevocation else PSuspension.

Definition c12_run (input : list Z) : list Z :=
  match input with
  | kind :: r =>
    if kind =? 1 then
      match r with
      | [len; b; o; v] =>
          let l := Z.to_N b :: repeat 0%N (Z.to_nat len - 1) in
          match sl_set l (Z.to_N o) (bz v) with
          | Ok l' => 1 :: c12_gets l' 0 (Nat.min 16 (8 * Z.to_nat len)) ++ put_pairs (c12_sparse 0 l')
          | Err e => [0; c12_err_code e]
          | Panic => [-777]
          end
      | _ => ERR_DECODE
      end
    else if kind =? 2 then
      match r with
      | n :: ops =>
          match sl_new (Z.to_N n) with
          | Ok l => let '(o, lf) := c12_list_ops (length ops) ops l in
                    1 :: Z.of_N (sl_len l) :: o ++ put_pairs (c12_sparse 0 lf)
          | Err _ => [0]
          | Panic => [-777]
          end
      | _ => ERR_DECODE
      end
    else if kind =? 3 then
      match r with
      | p :: n :: ops =>
          match sl_new (Z.to_N n) with
          | Ok l => let '(o, cf) := c12_cred_ops (length ops) ops {| sc_purpose := c12_purpose p; sc_list := l |} in
                    1 :: o ++ put_pairs (c12_sparse 0 (sc_list cf))
          | Err _ => [0]
          | Panic => [-777]
          end
      | _ => ERR_DECODE
      end
    else if kind =? 4 then
      match r with
      | [lp; ep; idm; idx; setbit; mode; has; parses] =>
          match sl_new 131072 with
          | Ok l0 =>
              let l := if bz setbit then match sl_set l0 (Z.to_N idx) true with Ok l' => l' | _ => l0 end else l0 in
              let c := {| sc_purpose := c12_purpose lp; sc_list := l |} in
              let m := if mode =? 0 then ChkStrict else if mode =? 1 then ChkSkipUnsupported else ChkSkipAll in
              let e := if bz has then Some (bz parses, bz idm, c12_purpose ep, Z.to_N idx) else None in
              [match sl_check_status c m e with VOk => 0 | VRevoked => 1 | VSuspended => 2 | VInvalidStatus => 3 end]
          | _ => [-777]
          end
      | _ => ERR_DECODE
      end
    else if kind =? 6 then
      (* the encoded text: Base64 (model) of the recorded gzip bytes *)
      match take_lp r with
      | Some (gz, _) => put_lp (map Z.of_N (sl_encode (fun _ => map Z.to_N gz) []))
      | None => ERR_DECODE end
    else if kind =? 7 then
      (* a text handed to the decoder: Base64 (model), then gzip as recorded for exactly the bytes the model decoded *)
      match take_lp r with
      | Some (text, flag :: r1) =>
          match take_lp r1 with
          | Some (zb, r2) =>
              match take_lp r2 with
              | Some (inf, _) =>
                  let gunzip (z : list N) : option (list N) :=
                    if (flag =? 1) && (if list_eq_dec N.eq_dec z (map Z.to_N zb) then true else false) then Some (map Z.to_N inf) else None in
                  match sl_decode gunzip (map Z.to_N text) with
                  | Ok l => 0 :: Z.of_nat (length l) :: map Z.of_N (firstn 16 l)
                  | _ => [1] end
              | None => ERR_DECODE end
          | None => ERR_DECODE end
      | _ => ERR_DECODE end
    else if kind =? 5 then [-5555]      (* dense lists: the encode / decode round trip through gzip is an oracle-only row *)
    else ERR_DECODE
  | [] => ERR_DECODE
  end.
