(* Wire-level entry point of the C14 model (IOTA state metadata).
   url = did rest frag(-1 = none); smeth = url ctrl data; entry = 0 smeth | 1 url; svc = url data
   doc  = id <n ctrl*> <n smeth*> 5 x <n entry*> <n svc*> <n aka*> props
   meta = created updated deactivated governor statecontroller props      (-1 = absent)
   kind 1: tgt doc meta <LP: state doc ++ state meta as recorded from From<IotaDocument>> <LP: body bytes as serialised>
           -> [-5] oracle miss | [20] pack failed | 0 len h0..h6 then (0 doc meta | err)
   kind 2: <LP data> nent (<LP body> flag <LP doc ++ meta>)*     flag: 0 = parse fails, 1 = parses to, 2 = parses outside the encodable universe
           -> [-5] | [-6] | 0 doc meta | err *)
From Coq Require Import List ZArith Bool.
From IdV Require Import Lib.Wire Doc.Doc Iota.StateMeta.
Import ListNotations.
Open Scope Z_scope.

Definition c14_valid (d : Z) : bool := (1 <=? d) && (d <? 10).
Definition c14_url (d r f : Z) : url := {| u_did := d; u_rest := r; u_frag := if f <? 0 then None else Some f |}.
Fixpoint take_n {A} (f : list Z -> option (A * list Z)) (n : nat) (l : list Z) : option (list A * list Z) :=
  match n with
  | O => Some ([], l)
  | S n' => match f l with
            | Some (x, l1) => match take_n f n' l1 with Some (xs, l2) => Some (x :: xs, l2) | None => None end
            | None => None end
  end.
Definition counted {A} (f : list Z -> option (A * list Z)) (l : list Z) : option (list A * list Z) :=
  match l with n :: r => if n <? 0 then None else take_n f (Z.to_nat n) r | [] => None end.
Definition tk_z (l : list Z) : option (Z * list Z) := match l with x :: r => Some (x, r) | [] => None end.
Definition tk_meth (l : list Z) : option (smeth * list Z) :=
  match l with d :: r :: f :: c :: x :: l' => Some ({| sm_id := c14_url d r f; sm_ctrl := c; sm_data := x |}, l') | _ => None end.
Definition tk_entry (l : list Z) : option (sref * list Z) :=
  match l with
  | t :: l1 => if t =? 0 then match tk_meth l1 with Some (m, l2) => Some (SEmbed m, l2) | None => None end
               else match l1 with d :: r :: f :: l2 => Some (SRefer (c14_url d r f), l2) | _ => None end
  | [] => None end.
Definition tk_svc (l : list Z) : option (svc * list Z) :=
  match l with d :: r :: f :: x :: l' => Some ({| s_id := c14_url d r f; s_data := x |}, l') | _ => None end.
Definition tk_doc (l : list Z) : option (sdoc * list Z) :=
  match l with
  | i :: l0 =>
    match counted tk_z l0 with Some (ctrl, l1) =>
    match counted tk_meth l1 with Some (vm, l2) =>
    match take_n (counted tk_entry) 5 l2 with Some (rels, l3) =>
    match counted tk_svc l3 with Some (sv, l4) =>
    match counted tk_z l4 with Some (aka, l5) =>
    match l5 with p :: l6 => Some ({| sd_id := i; sd_ctrl := ctrl; sd_vm := vm; sd_rels := rels; sd_svc := sv; sd_aka := aka; sd_props := p |}, l6) | [] => None end
    | None => None end | None => None end | None => None end | None => None end | None => None end
  | [] => None end.
Definition tk_meta (l : list Z) : option (smeta * list Z) :=
  match l with a :: b :: c :: d :: e :: f :: r => Some ({| mt_created := a; mt_updated := b; mt_deact := c; mt_gov := d; mt_sc := e; mt_props := f |}, r) | _ => None end.

Definition en_url (u : url) : list Z := [u_did u; u_rest u; match u_frag u with Some f => f | None => -1 end].
Definition en_meth (m : smeth) : list Z := en_url (sm_id m) ++ [sm_ctrl m; sm_data m].
Definition en_entry (r : sref) : list Z := match r with SEmbed m => 0 :: en_meth m | SRefer u => 1 :: en_url u end.
Definition en_svc (s : svc) : list Z := en_url (s_id s) ++ [s_data s].
Definition en_doc (s : sdoc) : list Z :=
  sd_id s :: put_lp (sd_ctrl s) ++ (Z.of_nat (length (sd_vm s)) :: flat_map en_meth (sd_vm s))
  ++ flat_map (fun l => Z.of_nat (length l) :: flat_map en_entry l) (sd_rels s)
  ++ (Z.of_nat (length (sd_svc s)) :: flat_map en_svc (sd_svc s)) ++ put_lp (sd_aka s) ++ [sd_props s].
Definition en_meta (m : smeta) : list Z := [mt_created m; mt_updated m; mt_deact m; mt_gov m; mt_sc m; mt_props m].
Fixpoint zl_eqb (a b : list Z) : bool :=
  match a, b with [], [] => true | x :: a', y :: b' => (x =? y) && zl_eqb a' b' | _, _ => false end.

Definition c14_result (r : (sdoc * smeta) + Z) : list Z :=
  match r with inl (d, m) => 0 :: en_doc d ++ en_meta m | inr e => [e] end.

Definition c14_kind1 (l : list Z) : list Z :=
  match l with
  | tgt :: l0 =>
    match tk_doc l0 with Some (d, l1) =>
    match tk_meta l1 with Some (m, l2) =>
    match take_lp l2 with Some (st_enc, l3) =>
    match take_lp l3 with Some (body, _) =>
      (* the serde oracle: defined on exactly the recorded pair *)
      let ser (x : sdoc * smeta) := if zl_eqb (en_doc (fst x) ++ en_meta (snd x)) st_enc then body else [-5] in
      let de (b : list Z) := if zl_eqb b body then match tk_doc st_enc with Some (sd, r) => match tk_meta r with Some (sm, _) => Some (sd, sm) | None => None end | None => None end else None in
      if negb (zl_eqb (ser (to_state d, clear_addr m)) body) then [-5] else
      match pack_full ser (d, m) with
      | None => [20]
      | Some fr => 0 :: Z.of_nat (length fr) :: firstn 7 fr ++ c14_result (unpack_full c14_valid de tgt fr)
      end
    | None => ERR_DECODE end | None => ERR_DECODE end | None => ERR_DECODE end | None => ERR_DECODE end
  | [] => ERR_DECODE end.

Definition tk_ent (l : list Z) : option ((list Z * Z * list Z) * list Z) :=
  match take_lp l with
  | Some (body, flag :: l1) => match take_lp l1 with Some (enc, l2) => Some ((body, flag, enc), l2) | None => None end
  | _ => None end.
Definition c14_kind2 (l : list Z) : list Z :=
  match take_lp l with
  | Some (data, l1) =>
    match counted tk_ent l1 with
    | Some (tab, _) =>
      match unframe data with
      | inr e => [e]
      | inl body =>
        match find (fun e => zl_eqb (fst (fst e)) body) tab with
        | None => [-5]
        | Some (_, flag, enc) =>
          if flag =? 2 then [-6] else
          let de (b : list Z) := if flag =? 1 then match tk_doc enc with Some (sd, r) => match tk_meta r with Some (sm, _) => Some (sd, sm) | None => None end | None => None end else None in
          c14_result (unpack_state de data)
        end
      end
    | None => ERR_DECODE end
  | None => ERR_DECODE end.

Definition c14_run (input : list Z) : list Z :=
  match input with
  | k :: l => if k =? 1 then c14_kind1 l else if k =? 2 then c14_kind2 l else ERR_DECODE
  | [] => ERR_DECODE end.
