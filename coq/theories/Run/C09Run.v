(* Wire-level entry point of the C09 model.
   case: <start document as in C04, without queries> op ...
     op 0: generate  k d r f scope nbits bits...      op 1: purge  d r f nbits bits...
   every method payload < 500 of the start document is a stored key with its key id recorded; payloads >= 500 are keyless methods *)
From Coq Require Import List ZArith Bool.
From IdV Require Import Lib.Wire Doc.Doc Storage.GenPurge Run.C04Run.
Import ListNotations.
Open Scope Z_scope.

Definition c09_method_datas (d : doc) : list Z :=
  map m_data (d_vm d) ++ flat_map (fun e => match e with Embed m => [m_data m] | Refer _ => [] end) (entries d).

Definition c09_obs (r : sres) (st : sst) (tracked : list Z) : list Z :=
  (match r with SOk => 0 | SPlain => 1 | SUndoFailed => 2 end)
  :: c04_doc_obs (s_doc st)
  ++ [Z.of_nat (length (s_keys st)); Z.of_nat (length (s_kids st))]
  ++ map (fun k => zb (existsb (Z.eqb k) (s_keys st))) tracked
  ++ map (fun k => match kids_get (s_kids st) k with Some k' => zb (k' =? k) | None => 0 end) tracked.

Definition c09_run (input : list Z) : list Z :=
  match c04_counted c04_take_meths input with
  | Some (vm, r0) =>
    match c04_counted c04_take_entries r0 with
    | Some (e1, r1) => match c04_counted c04_take_entries r1 with
    | Some (e2, r2) => match c04_counted c04_take_entries r2 with
    | Some (e3, r3) => match c04_counted c04_take_entries r3 with
    | Some (e4, r4) => match c04_counted c04_take_entries r4 with
    | Some (e5, r5) =>
      match c04_counted c04_take_svcs r5 with
      | Some (sv, op :: r6) =>
          let d := {| d_vm := vm;
                      d_rels := fun r => match r with RAuth => e1 | RAssert => e2 | RKeyAgr => e3 | RCapDel => e4 | RCapInv => e5 end;
                      d_svc := sv |} in
          let datas := filter (fun k => k <? 500) (c09_method_datas d) in     (* payloads >= 500: keyless methods (nothing in the stores) *)
          let st := {| s_doc := d; s_keys := datas; s_kids := map (fun k => (k, k)) datas |} in
          if op =? 0 then
            match r6 with
            | k :: a :: b :: c :: sc :: bits =>
                match take_lp bits with
                | Some (bs, []) => let '(r, st') := generate true st k (if c =? -1 then None else Some (c04_url a b c)) (c04_scope sc) (map bz bs) in c09_obs r st' (datas ++ [k])
                | _ => ERR_DECODE end
            | _ => ERR_DECODE end
          else
            match r6 with
            | a :: b :: c :: bits =>
                match take_lp bits with
                | Some (bs, []) => let '(r, st') := purge st (c04_url a b c) (map bz bs) in c09_obs r st' datas
                | _ => ERR_DECODE end
            | _ => ERR_DECODE end
      | _ => ERR_DECODE end
    | None => ERR_DECODE end | None => ERR_DECODE end | None => ERR_DECODE end | None => ERR_DECODE end | None => ERR_DECODE end
  | None => ERR_DECODE
  end.
