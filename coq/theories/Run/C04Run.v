(* Wire-level entry point of the C04 model (DID document mutations and resolution).
   url = did rest frag(-1 = none); meth = url data; relationship entry = 0 meth | 1 url; svc = url data
   case: <vm: n meth*> <5 x rel: n entry*> <svc: n svc*> <nq queries: did(-1) frag(-1)>* ops...
   ops: 0 meth scope | 1 url | 2 svc | 3 url | 4 did frag rel | 5 did frag rel      (scope 0 = vm, 1..5 = rel) *)
From Coq Require Import List ZArith Bool.
From IdV Require Import Lib.Wire Doc.Doc Doc.UrlQuery.
Import ListNotations.
Open Scope Z_scope.

Definition c04_url (d r f : Z) : url := {| u_did := d; u_rest := r; u_frag := if f <? 0 then None else Some f |}.
Definition c04_rel (z : Z) : rel := if z =? 1 then RAuth else if z =? 2 then RAssert else if z =? 3 then RKeyAgr else if z =? 4 then RCapDel else RCapInv.
Definition c04_scope (z : Z) : scope := if z =? 0 then SVm else SRel (c04_rel z).
Definition c04_query (d f : Z) : query := {| q_did := if d <? 0 then None else Some d; q_frag := if f <? 0 then None else Some f |}.

Fixpoint c04_take_meths (n : nat) (l : list Z) : option (list meth * list Z) :=
  match n with
  | O => Some ([], l)
  | S n' => match l with
            | d :: r :: f :: x :: l' => match c04_take_meths n' l' with
                                        | Some (ms, l'') => Some ({| m_id := c04_url d r f; m_data := x |} :: ms, l'')
                                        | None => None end
            | _ => None end
  end.
Fixpoint c04_take_entries (n : nat) (l : list Z) : option (list mref * list Z) :=
  match n with
  | O => Some ([], l)
  | S n' => match l with
            | t :: d :: r :: f :: l1 =>
                if t =? 0 then
                  match l1 with
                  | x :: l2 => match c04_take_entries n' l2 with
                               | Some (es, l3) => Some (Embed {| m_id := c04_url d r f; m_data := x |} :: es, l3)
                               | None => None end
                  | [] => None end
                else match c04_take_entries n' l1 with
                     | Some (es, l3) => Some (Refer (c04_url d r f) :: es, l3)
                     | None => None end
            | _ => None end
  end.
Fixpoint c04_take_svcs (n : nat) (l : list Z) : option (list svc * list Z) :=
  match n with
  | O => Some ([], l)
  | S n' => match l with
            | d :: r :: f :: x :: l' => match c04_take_svcs n' l' with
                                        | Some (ms, l'') => Some ({| s_id := c04_url d r f; s_data := x |} :: ms, l'')
                                        | None => None end
            | _ => None end
  end.
Fixpoint c04_take_queries (n : nat) (l : list Z) : option (list query * list Z) :=
  match n with
  | O => Some ([], l)
  | S n' => match l with
            | d :: f :: l' => match c04_take_queries n' l' with Some (qs, l'') => Some (c04_query d f :: qs, l'') | None => None end
            | _ => None end
  end.
Definition c04_counted {A} (f : nat -> list Z -> option (A * list Z)) (l : list Z) : option (A * list Z) :=
  match l with n :: r => if n <? 0 then None else f (Z.to_nat n) r | [] => None end.

Definition c04_url_obs (u : url) : list Z := [u_did u; u_rest u; match u_frag u with Some f => f | None => -1 end].
Definition c04_meth_obs (o : option meth) : list Z :=
  match o with Some m => 1 :: c04_url_obs (m_id m) ++ [m_data m] | None => [0] end.
Definition c04_doc_obs (d : doc) : list Z :=
  Z.of_nat (length (d_vm d)) :: flat_map (fun m => c04_url_obs (m_id m) ++ [m_data m]) (d_vm d)
  ++ flat_map (fun r => Z.of_nat (length (d_rels d r)) ::
                 flat_map (fun e => match e with Embed m => 0 :: c04_url_obs (m_id m) ++ [m_data m] | Refer u => 1 :: c04_url_obs u end) (d_rels d r)) all_rels
  ++ Z.of_nat (length (d_svc d)) :: flat_map (fun s => c04_url_obs (s_id s) ++ [s_data s]) (d_svc d).
Definition c04_scopes : list (option scope) := [None; Some SVm; Some (SRel RAuth); Some (SRel RAssert); Some (SRel RKeyAgr); Some (SRel RCapDel); Some (SRel RCapInv)].
Definition c04_answers (d : doc) (qs : list query) : list Z :=
  flat_map (fun q => flat_map (fun s => c04_meth_obs (resolve_method d q s)) c04_scopes
                     ++ (match resolve_service d q with Some s => 1 :: c04_url_obs (s_id s) ++ [s_data s] | None => [0] end)) qs
  ++ flat_map (fun s => Z.of_nat (length (methods d s)) :: flat_map (fun m => c04_url_obs (m_id m)) (methods d s)) c04_scopes.

Definition c04_after (d : doc) (qs : list query) : list Z := zb (check d) :: c04_doc_obs d ++ c04_answers d qs.

Fixpoint c04_ops (fuel : nat) (ops : list Z) (d : doc) (qs : list query) : list Z :=
  match fuel with
  | O => []
  | S fuel' =>
    match ops with
    | [] => []
    | t :: r =>
      if t =? 0 then
        match r with
        | a :: b :: c :: x :: s :: r' =>
            match insert_method d {| m_id := c04_url a b c; m_data := x |} (c04_scope s) with
            | inl d' => 0 :: c04_after d' qs ++ c04_ops fuel' r' d' qs
            | inr _ => 1 :: c04_after d qs ++ c04_ops fuel' r' d qs
            end
        | _ => [-999] end
      else if t =? 1 then
        match r with
        | a :: b :: c :: r' =>
            let '(d', o) := remove_method d (c04_url a b c) in
            (match o with Some (m, s) => [1; m_data m; match s with SVm => 0 | SRel RAuth => 1 | SRel RAssert => 2 | SRel RKeyAgr => 3 | SRel RCapDel => 4 | SRel RCapInv => 5 end] | None => [0] end)
            ++ c04_after d' qs ++ c04_ops fuel' r' d' qs
        | _ => [-999] end
      else if t =? 2 then
        match r with
        | a :: b :: c :: x :: r' =>
            match insert_service d {| s_id := c04_url a b c; s_data := x |} with
            | inl d' => 0 :: c04_after d' qs ++ c04_ops fuel' r' d' qs
            | inr _ => 1 :: c04_after d qs ++ c04_ops fuel' r' d qs
            end
        | _ => [-999] end
      else if t =? 3 then
        match r with
        | a :: b :: c :: r' =>
            let '(d', o) := remove_service d (c04_url a b c) in
            (match o with Some s => [1; s_data s] | None => [0] end) ++ c04_after d' qs ++ c04_ops fuel' r' d' qs
        | _ => [-999] end
      else
        match r with
        | a :: f :: rl :: r' =>
            let res := if t =? 4 then attach d (c04_query a f) (c04_rel rl) else detach d (c04_query a f) (c04_rel rl) in
            match res with
            | inl (d', b) => (if b then 0 else 2) :: c04_after d' qs ++ c04_ops fuel' r' d' qs
            | inr EEmbedded => 3 :: c04_after d qs ++ c04_ops fuel' r' d qs
            | inr _ => 1 :: c04_after d qs ++ c04_ops fuel' r' d qs
            end
        | _ => [-999] end
    end
  end.

(* string-level queries (Doc/UrlQuery.v): -9 <LP query> n (<LP did> has_frag <LP frag>)..  -> index of the first matching id, -1 when none *)
Definition c04_nl (l : list Z) : list N := map Z.to_N l.
Fixpoint c04_take_ids (n : nat) (l : list Z) : option (list (list N * option (list N))) :=
  match n with
  | O => Some []
  | S m => match take_lp l with
           | Some (d, hf :: r1) => match take_lp r1 with
                                   | Some (f, r2) => match c04_take_ids m r2 with
                                                     | Some ids => Some ((c04_nl d, if hf =? 0 then None else Some (c04_nl f)) :: ids)
                                                     | None => None end
                                   | None => None end
           | _ => None end
  end.
Definition c04_query_run (l : list Z) : list Z :=
  match take_lp l with
  | Some (q, n :: r) => match c04_take_ids (Z.to_nat n) r with
                        | Some ids => [match q_first PFX_FIXED (c04_nl q) ids 0 with Some i => Z.of_nat i | None => -1 end]
                        | None => ERR_DECODE end
  | _ => ERR_DECODE end.

Definition c04_run (input : list Z) : list Z :=
  match input with -9 :: l => c04_query_run l | _ =>
  match c04_counted c04_take_meths input with
  | Some (vm, r0) =>
    match c04_counted c04_take_entries r0 with
    | Some (e1, r1) => match c04_counted c04_take_entries r1 with
    | Some (e2, r2) => match c04_counted c04_take_entries r2 with
    | Some (e3, r3) => match c04_counted c04_take_entries r3 with
    | Some (e4, r4) => match c04_counted c04_take_entries r4 with
    | Some (e5, r5) =>
      match c04_counted c04_take_svcs r5 with
      | Some (sv, r6) =>
        match c04_counted c04_take_queries r6 with
        | Some (qs, ops) =>
            let d := {| d_vm := vm;
                        d_rels := fun r => match r with RAuth => e1 | RAssert => e2 | RKeyAgr => e3 | RCapDel => e4 | RCapInv => e5 end;
                        d_svc := sv |} in
            (* the deserialisation gate: OrderedSet uniqueness + check_id_constraints *)
            if negb (sets_ok d && check_id_constraints d) then [0]
            else 1 :: c04_after d qs ++ c04_ops (length ops) ops d qs
        | None => ERR_DECODE end
      | None => ERR_DECODE end
    | None => ERR_DECODE end | None => ERR_DECODE end | None => ERR_DECODE end | None => ERR_DECODE end | None => ERR_DECODE end
  | None => ERR_DECODE
  end end.
