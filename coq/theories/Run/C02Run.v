(* Wire-level entry point of the C02 model (JWT credential validation).
   optional = flag value; url = d r f (f = -1 none)
   token   = nonce? kidtag [d r f] sigkey claimsflag [vcred | variant of the inconsistency, ignored by the model]          kidtag 0 absent, 1 unparsable, 2 url
   vcred   = issuer? issued expires? ctx_ok type_ok sub_id? sub_empty nontransf? statusflag [bitmap_type well_formed d r f index]
   issuer  = id <C04 document: vm, 5 rels, svc> nbm x (svcdata ok nrev rev..)
   opts    = nonce? midflag [d r f] scope(-1 none, 0 vm, 1..5) earliest latest shflag [holder mode] statusmode failfast
   case    = kind token nissuers issuers opts       kind 1 = validate (first issuer), 2 = verify_signature (all issuers)
   obs     = 0 vcred | 1 n errs *)
From Coq Require Import List ZArith Bool.
From IdV Require Import Lib.Wire Doc.Doc Cred.Validate Run.C04Run Run.C07Run.
Import ListNotations.
Open Scope Z_scope.

Definition rurl : rd url := d <- rz ;; r <- rz ;; f <- rz ;; ret (c04_url d r f).
Definition rb : rd bool := x <- rz ;; ret (negb (x =? 0)).
Definition rstatus : rd (option status) :=
  fl <- rz ;; if fl =? 0 then ret None else
  a <- rb ;; b <- rb ;; u <- rurl ;; i <- rz ;; ret (Some {| st_bitmap_type := a; st_well_formed := b; st_svc := u; st_index := i |}).
Definition rvcred : rd vcred :=
  a <- ro ;; b <- rz ;; c <- ro ;; d <- rb ;; e <- rb ;; f <- ro ;; g <- rb ;; h <- ro ;; s <- rstatus ;;
  ret {| v_issuer := a; v_issued := b; v_expires := c; v_ctx_ok := d; v_type_ok := e; v_sub_id := f; v_sub_empty := g;
         v_nontransf := match h with Some x => Some (negb (x =? 0)) | None => None end; v_status := s |}.
Definition rtoken : rd token :=
  n <- ro ;; kt <- rz ;;
  k <- (if kt =? 2 then (u <- rurl ;; ret (Kid u)) else ret (if kt =? 0 then KidAbsent else KidUnparsable)) ;;
  sk <- rz ;; cf <- rz ;;
  c <- (if cf =? 0 then (_ <- rz ;; ret None) else (x <- rvcred ;; ret (Some x))) ;;
  ret {| t_nonce := n; t_kid := k; t_sig_ok := fun key => key =? sk; t_claims := c |}.
Definition rdoc : rd doc :=
  vm <- c04_counted c04_take_meths ;; e1 <- c04_counted c04_take_entries ;; e2 <- c04_counted c04_take_entries ;;
  e3 <- c04_counted c04_take_entries ;; e4 <- c04_counted c04_take_entries ;; e5 <- c04_counted c04_take_entries ;;
  sv <- c04_counted c04_take_svcs ;;
  ret {| d_vm := vm; d_rels := fun r => match r with RAuth => e1 | RAssert => e2 | RKeyAgr => e3 | RCapDel => e4 | RCapInv => e5 end; d_svc := sv |}.
Fixpoint rmany {A} (f : rd A) (n : nat) : rd (list A) :=
  match n with O => ret [] | S n' => x <- f ;; xs <- rmany f n' ;; ret (x :: xs) end.
Definition rlist {A} (f : rd A) : rd (list A) := n <- rz ;; if n <? 0 then (fun _ => None) else rmany f (Z.to_nat n).
Definition rbm : rd (Z * option (list Z)) := d <- rz ;; ok <- rb ;; l <- rlist rz ;; ret (d, if ok then Some l else None).
Definition rissuer : rd issuer :=
  i <- rz ;; d <- rdoc ;; bms <- rlist rbm ;;
  ret {| is_id := i; is_doc := d; is_bitmap := fun data => match find (fun e => fst e =? data) bms with Some e => snd e | None => None end |}.
Definition ropts : rd (vopts * bool) :=
  n <- ro ;; mf <- rz ;; mid <- (if mf =? 0 then ret None else (u <- rurl ;; ret (Some u))) ;;
  sc <- rz ;; ea <- rz ;; la <- rz ;; shf <- rz ;;
  sh <- (if shf =? 0 then ret None else (h <- rz ;; m <- rz ;; ret (Some (h, if m =? 0 then AlwaysSubject else if m =? 1 then SubjectOnNonTransferable else AnyRel)))) ;;
  sm <- rz ;; ff <- rb ;;
  ret ({| o_nonce := n; o_method_id := mid; o_scope := if sc <? 0 then None else Some (c04_scope sc); o_earliest_expiry := ea; o_latest_issuance := la;
          o_sh := sh; o_status := if sm =? 0 then Strict else if sm =? 1 then SkipUnsupported else SkipAll |}, ff).

Definition w_status (s : option status) : list Z :=
  match s with None => [0] | Some st => [1; zb (st_bitmap_type st); zb (st_well_formed st)] ++ c04_url_obs (st_svc st) ++ [st_index st] end.
Definition w_vcred (c : vcred) : list Z :=
  wo (v_issuer c) ++ [v_issued c] ++ wo (v_expires c) ++ [zb (v_ctx_ok c); zb (v_type_ok c)] ++ wo (v_sub_id c) ++ [zb (v_sub_empty c)]
  ++ wo (match v_nontransf c with Some b => Some (zb b) | None => None end) ++ w_status (v_status c).
Definition verr_code (e : verr) : Z :=
  match e with VNonce => 1 | VKidMissing => 2 | VKidParse => 3 | VDocMismatch => 4 | VMethodLookup => 5 | VSignature => 6 | VClaims => 7 | VSignerUrl => 8
             | VIdentifierMismatch => 9 | VIssuance => 10 | VExpiry => 11 | VStructure => 12 | VSubjectHolder => 13 | VStatusInvalid => 14 | VServiceLookup => 15 | VRevoked => 16 | VSdDecode => 17 end.

Definition c02_run (input : list Z) : list Z :=
  match (k <- rz ;; t <- rtoken ;; is <- rlist rissuer ;; o <- ropts ;; ret (k, t, is, o)) input with
  | Some ((k, t, is, (o, ff)), _) =>
    if k =? 1 then
      match is with
      | i :: _ => match validate t i o ff with inl c => 0 :: w_vcred c | inr es => 1 :: Z.of_nat (length es) :: map verr_code es end
      | [] => ERR_DECODE end
    else match verify_signature t is o with inl c => 0 :: w_vcred c | inr e => [1; 1; verr_code e] end
  | None => ERR_DECODE end.
