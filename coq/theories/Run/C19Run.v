(* Executable wire-level entry point of the C19 models: elements are pairs (key, value) of
   integers with key = first component (the harness uses u8 with key = value as the pair
   (k, 0), and a struct {k, v} keyed by k). *)
From Coq Require Import List ZArith Bool.
From IdV Require Import Lib.Wire Core.OrdSet Core.OneOr.
Import ListNotations.
Open Scope Z_scope.

Definition el := (Z * Z)%type.
Definition ekey (x : el) : Z := fst x.
Notation OS f := (f el Z ekey Z.eqb).

Fixpoint c19_parse_ops (fuel : nat) (l : list Z) : option (list (os_op el Z)) :=
  match fuel with
  | O => match l with [] => Some [] | _ => None end
  | S fuel' =>
      match l with
      | [] => Some []
      | t :: r =>
          if t =? 4 then
            match r with k :: r' => option_map (cons (OpRemove k)) (c19_parse_ops fuel' r') | _ => None end
          else if t =? 2 then
            match r with c :: k :: v :: r' => option_map (cons (OpReplace c (k, v))) (c19_parse_ops fuel' r') | _ => None end
          else
            match r with
            | k :: v :: r' =>
                let o := if t =? 0 then Some (OpAppend (k, v)) else if t =? 1 then Some (OpPrepend (k, v))
                         else if t =? 3 then Some (OpUpdate (k, v)) else None in
                match o with Some o => option_map (cons o) (c19_parse_ops fuel' r') | None => None end
            | _ => None
            end
      end
  end.

Fixpoint c19_run_ops (ops : list (os_op el Z)) (l : list el) : list Z * list el :=
  match ops with
  | [] => ([], l)
  | o :: r =>
      let '(l', (b, rem)) := OS os_step l o in
      let here := match o with
                  | OpRemove _ => match rem with Some (k, v) => [1; k; v] | None => [0] end
                  | _ => [zb b]
                  end in
      let '(obs, lf) := c19_run_ops r l' in (here ++ obs, lf)
  end.

Definition c19_oos_obs (v : oneorset el) : list Z :=
  match v with OSOne x => 1 :: put_pairs [x] | OSSet l => 2 :: put_pairs l end.
Definition c19_oom_obs (v : oneormany el) : list Z :=
  match v with OMOne x => 1 :: put_pairs [x] | OMMany l => 2 :: put_pairs l end.
Definition c19_shape_obs (j : jshape el) : list Z :=
  match j with JVal _ => [0] | JArr _ => [1] end.
Definition el_eqb (a b : el) : bool := (fst a =? fst b) && (snd a =? snd b).
Fixpoint ell_eqb (a b : list el) : bool :=
  match a, b with
  | [], [] => true
  | x :: a', y :: b' => el_eqb x y && ell_eqb a' b'
  | _, _ => false
  end.
Definition oos_eqb (a b : oneorset el) : bool :=
  match a, b with
  | OSOne x, OSOne y => el_eqb x y
  | OSSet x, OSSet y => ell_eqb x y
  | _, _ => false end.
Definition oom_eqb (a b : oneormany el) : bool :=
  match a, b with
  | OMOne x, OMOne y => el_eqb x y
  | OMMany x, OMMany y => ell_eqb x y
  | _, _ => false end.

Definition c19_parse_shape (l : list Z) : option (jshape el) :=
  match l with
  | t :: r =>
      if t =? 0 then match r with [k; v] => Some (JVal (k, v)) | _ => None end
      else match take_pairs r with Some (ps, []) => Some (JArr ps) | _ => None end
  | _ => None
  end.

Fixpoint c19_oos_appends (v : oneorset el) (xs : list el) : list Z * oneorset el :=
  match xs with
  | [] => ([], v)
  | x :: r => let '(v', b) := OS oos_append v x in
              let '(o, vf) := c19_oos_appends v' r in (zb b :: o, vf)
  end.

Definition c19_run (input : list Z) : list Z :=
  match input with
  | [] => ERR_DECODE
  | kind :: r =>
  if kind =? 1 then
      match take_pairs r with
      | Some (init, opsz) =>
          match c19_parse_ops (length opsz) opsz with
          | Some ops =>
              match OS os_try_from_vec init with
              | None => [0]
              | Some l0 => let '(obs, lf) := c19_run_ops ops l0 in 1 :: obs ++ put_pairs lf
              end
          | None => ERR_DECODE
          end
      | None => ERR_DECODE
      end
  else if kind =? 2 then
      match take_pairs r with
      | Some (l, []) =>
          (match OS os_try_from_vec l with None => [0] | Some s => 1 :: put_pairs s end)
          ++ put_pairs (OS os_from_iter l)
      | _ => ERR_DECODE
      end
  else if kind =? 3 then
      match c19_parse_shape r with
      | Some j =>
          match OS oos_deser j with
          | None => [0]
          | Some v => c19_oos_obs v ++ c19_shape_obs (oos_ser el v)
                      ++ [match OS oos_deser (oos_ser el v) with Some v' => zb (oos_eqb v v') | None => 0 end]
          end
      | None => ERR_DECODE
      end
  else if kind =? 4 then
      match take_pairs r with
      | Some (l, r2) =>
          match take_pairs r2 with
          | Some (xs, []) =>
              match OS oos_try_from_vec l with
              | None => [0]
              | Some v => let '(flags, vf) := c19_oos_appends v xs in
                          c19_oos_obs v ++ flags ++ c19_oos_obs vf ++ c19_shape_obs (oos_ser el vf)
              end
          | _ => ERR_DECODE
          end
      | None => ERR_DECODE
      end
  else if kind =? 5 then
      match c19_parse_shape r with
      | Some j =>
          match oom_deser el j with
          | None => [0]
          | Some v => c19_oom_obs v ++ c19_shape_obs (oom_ser el v)
                      ++ [match oom_deser el (oom_ser el v) with Some v' => zb (oom_eqb v v') | None => 0 end]
          end
      | None => ERR_DECODE
      end
  else if kind =? 6 then
      match take_pairs r with
      | Some (l, r2) =>
          match take_pairs r2 with
          | Some (xs, []) =>
              let v := oom_from_vec el l in
              let vf := fold_left (oom_push el) xs v in
              c19_oom_obs v ++ c19_oom_obs vf ++ c19_shape_obs (oom_ser el vf)
              ++ c19_oom_obs (oom_from_iter el (l ++ xs))
          | _ => ERR_DECODE
          end
      | None => ERR_DECODE
      end
  else if kind =? 7 then
      match r with
      | m :: r1 =>
        match take_pairs r1 with
        | Some (l, []) =>
          match OS oos_try_from_vec l with
          | None => [0]
          | Some v => c19_oos_obs (OS oos_map (fun x => (if m =? 0 then fst x else fst x mod m, snd x)) v)
          end
        | _ => ERR_DECODE
        end
      | _ => ERR_DECODE
      end
  else if kind =? 8 then
      (* every constructor route: OneOrSet try_from(Vec), new_set(OrderedSet), TryFrom<OrderedSet> [, new_one, From<T>]; OneOrMany from(Vec), from_iter [, From<T>, One] *)
      match take_pairs r with
      | Some (l, []) =>
          let oo (x : option (oneorset el)) := match x with Some v => c19_oos_obs v | None => [0] end in
          let viaset := match OS os_try_from_vec l with Some s => oos_new_set el s | None => None end in
          oo (OS oos_try_from_vec l) ++ oo viaset ++ oo viaset
          ++ (match l with [x] => c19_oos_obs (oos_new_one el x) ++ c19_oos_obs (oos_new_one el x) | _ => [] end)
          ++ c19_oom_obs (oom_from_vec el l) ++ c19_oom_obs (oom_from_iter el l)
          ++ (match l with [x] => c19_oom_obs (OMOne x) ++ c19_oom_obs (OMOne x) | _ => [] end)
      | _ => ERR_DECODE
      end
  else ERR_DECODE
  end.
