(* Wire-level entry point of the C13 model (Timestamp). *)
From Coq Require Import List ZArith NArith Bool.
From IdV Require Import Lib.Wire Lib.Outcome Lib.Calendar Core.Timestamp.
Import ListNotations.
Open Scope Z_scope.

Definition c13_fmt (t : Z) : list Z :=
  match ts_to_rfc3339 t with
  | Ok s => put_lp (zs_of s)
  | Err _ => [-1]
  | Panic => [-777]
  end.

Definition c13_run (input : list Z) : list Z :=
  match input with
  | kind :: r =>
    if kind =? 1 then
      match take_lp r with
      | Some (bs, []) =>
          match ts_parse (bytes_of bs) with
          | Ok t => 1 :: t :: c13_fmt t
          | Err _ => [0]
          | Panic => [-777]
          end
      | _ => ERR_DECODE
      end
    else if kind =? 2 then
      match r with
      | [z] => match ts_from_unix z with Ok t => 1 :: t :: c13_fmt t | Err _ => [0] | Panic => [-777] end
      | _ => ERR_DECODE
      end
    else if kind =? 3 then
      match r with
      | [t; op; u; k] =>
          match ts_from_unix t with
          | Ok t0 =>
              let d := ts_unit u * k in
              match (if op =? 0 then ts_checked_add t0 d else ts_checked_sub t0 d) with
              | Some x => [1; x]
              | None => [0]
              end
          | _ => [-1]
          end
      | _ => ERR_DECODE
      end
    else if kind =? 5 then
      match r with
      | [t; op; secs; nanos] =>
          match ts_from_unix t with
          | Ok t0 => match (if op =? 0 then ts_checked_add_ns t0 secs nanos else ts_checked_sub_ns t0 secs nanos) with Some x => [1; x] | None => [0] end
          | _ => [-1]
          end
      | _ => ERR_DECODE
      end
    else if kind =? 4 then
      match r with
      | [a; b] =>
          match ts_from_unix a, ts_from_unix b with
          | Ok x, Ok y => [match x ?= y with Lt => -1 | Eq => 0 | Gt => 1 end]
          | _, _ => [-2]
          end
      | _ => ERR_DECODE
      end
    else ERR_DECODE
  | [] => ERR_DECODE
  end.
