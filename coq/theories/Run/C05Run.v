(* Wire-level entry point of the C05 model (panic freedom).
   case = entry <LP bytes> extra..     For the modelled entries the observation is: 26 = IntegrityMetadata: 0 alg-len digest-len bytes-len | 1 (rejected);
   24 = MethodDigest::unpack: 0 <re-packed bytes> | 1; for every other entry point the model makes no
   prediction (-5555: the runner skips the comparison) and the catch_unwind oracle decides; a panic shows as -777. *)
From Coq Require Import List ZArith NArith Bool.
From IdV Require Import Lib.Wire Lib.Outcome Panic.Sites.
Import ListNotations.
Open Scope Z_scope.

Definition olen (o : outcome (list N) unit) : Z := match o with Ok l => Z.of_nat (length l) | Err _ => -1 | Panic => -777 end.
Definition c05_run (input : list Z) : list Z :=
  match input with
  | e :: l =>
    if e =? 26 then
      match take_lp l with
      | Some (bytes, _) => match integrity_parse (map Z.to_N bytes) with
                           | Some v => [0; olen (im_alg v); olen (im_digest v); olen (im_digest_bytes v)]
                           | None => [1] end
      | None => ERR_DECODE end
    else if e =? 24 then
      (* MethodDigest::unpack then pack: 0 <packed bytes> | 1 *)
      match take_lp l with
      | Some (bytes, _) => match md_unpack true (map Z.to_N bytes) with
                           | Ok d => 0 :: map Z.of_N (md_pack d)
                           | Err _ => [1]
                           | Panic => [-777] end
      | None => ERR_DECODE end
    else [-5555]
  | [] => ERR_DECODE end.
