(* One entry point for the extracted model: property number, case integers -> observation. *)
From Coq Require Import List ZArith Bool.
From IdV Require Import Lib.Wire Run.C19Run Run.C12Run Run.C13Run Run.C11Run Run.C18Run Run.C10Run Run.JwsRun Run.C04Run Run.C09Run Run.C20Run Run.C14Run Run.C07Run Run.C02Run Run.C03Run Run.C06Run Run.C16Run Run.C15Run Run.C05Run.
Import ListNotations.
Open Scope Z_scope.

Definition run_case (prop : Z) (input : list Z) : list Z :=
  if prop =? 19 then c19_run input
  else if prop =? 20 then c20_run input
  else if prop =? 14 then c14_run input
  else if prop =? 7 then c07_run input
  else if prop =? 2 then c02_run input
  else if prop =? 3 then c03_run input
  else if prop =? 6 then c06_run input
  else if prop =? 16 then c16_run input
  else if prop =? 15 then c15_run input
  else if prop =? 5 then c05_run input
  else if (prop =? 1) || (prop =? 8) then jws_run input
  else if prop =? 4 then c04_run input
  else if prop =? 9 then c09_run input
  else if prop =? 10 then c10_run input
  else if prop =? 17 then c17_run input
  else if prop =? 11 then c11_run input
  else if prop =? 12 then c12_run input
  else if prop =? 13 then c13_run input
  else if prop =? 18 then c18_run input
  else ERR_DECODE.
