(* Wire-level entry point of the C03 model (JWT presentation validation).
   ptoken = nonce? kidtag [textform(ignored by the model) qdid? qfrag?] sigkey claimsflag [pclaims as in C07 kind 4 | variant ignored by the model] issdid?
   holder = id <C04 document>        opts = nonce? midflag [d r f] scope earliest latest
   obs    = 0 pres expires issued aud | 1 err *)
From Coq Require Import List ZArith Bool.
From IdV Require Import Lib.Wire Doc.Doc Cred.Claims Cred.Validate Cred.PresValidate Run.C04Run Run.C07Run Run.C02Run.
Import ListNotations.
Open Scope Z_scope.

Definition rptoken : rd ptoken :=
  n <- ro ;; kt <- rz ;;
  k <- (if kt =? 0 then ret None else (_ <- rz ;; qd <- ro ;; qf <- ro ;; ret (Some {| q_did := qd; q_frag := qf |}))) ;;
  sk <- rz ;; cf <- rz ;;
  c <- (if cf =? 0 then (_ <- rz ;; ret None) else (x <- rd_pclaims ;; ret (Some x))) ;;
  i <- ro ;;
  ret {| pt_nonce := n; pt_kid := k; pt_sig_ok := fun key => key =? sk; pt_claims := c; pt_iss_did := i |}.
Definition rholder : rd holder := i <- rz ;; d <- rdoc ;; ret {| h_id := i; h_doc := d |}.
Definition rpvopts : rd pvopts :=
  n <- ro ;; mf <- rz ;; mid <- (if mf =? 0 then ret None else (u <- rurl ;; ret (Some u))) ;; sc <- rz ;; ea <- rz ;; la <- rz ;;
  ret {| po_nonce := n; po_method_id := mid; po_scope := if sc <? 0 then None else Some (c04_scope sc); po_earliest_expiry := ea; po_latest_issuance := la |}.
Definition pverr_code (e : pverr) : Z :=
  match e with PVNonce => 1 | PVKidMissing => 2 | PVMethodNotFound => 3 | PVKeyMaterial => 4 | PVSignature => 5 | PVClaims => 6 | PVSignerUrl => 7 | PVDocMismatch => 8
             | PVTimestamp => 9 | PVExpiry => 10 | PVIssuance => 11 | PVInconsistent => 12 end.
Definition c03_run (input : list Z) : list Z :=
  match (t <- rptoken ;; h <- rholder ;; o <- rpvopts ;; ret (t, h, o)) input with
  | Some ((t, h, o), _) =>
      match validate_pres t h o with
      | inl d => 0 :: w_pres (d_pres d) ++ wo (d_expires d) ++ wo (d_issued d) ++ wo (d_aud d)
      | inr e => [1; pverr_code e] end
  | None => ERR_DECODE end.
