(* Wire-level entry point of the C20 model (resolver).
   case: kind ntable (method handler kind)*  ...
     kind 1: single resolve   method idn ok
     kind 2: resolve_multiple ndids (method idn ok)*  norder (method idn)*     (completion order over the distinct DIDs)
     kind 3: did:jwk expansion did key
   handler kind 0 is CoreDID-typed (accepts every DID string), kind 1 is DIDJwk-typed (accepts none of the
   did:<m>:<number> strings used in kinds 1-2); kind 4 (private JWK in a did:jwk) is decided by the oracle only *)
From Coq Require Import List ZArith Bool.
From IdV Require Import Lib.Wire Resolver.Resolver Doc.Doc.
Import ListNotations.
Open Scope Z_scope.

Fixpoint c20_take3 (n : nat) (l : list Z) : option (list (Z * Z * Z) * list Z) :=
  match n with
  | O => Some ([], l)
  | S n' => match l with
            | a :: b :: c :: r => match c20_take3 n' r with Some (xs, r') => Some ((a, b, c) :: xs, r') | None => None end
            | _ => None end
  end.
Fixpoint c20_take2 (n : nat) (l : list Z) : option (list (Z * Z) * list Z) :=
  match n with
  | O => Some ([], l)
  | S n' => match l with
            | a :: b :: r => match c20_take2 n' r with Some (xs, r') => Some ((a, b) :: xs, r') | None => None end
            | _ => None end
  end.

Definition c20_doc (h : Z) (d : rdid) : Z := 1000 * h + 10 * r_method d + r_idn d.
Definition c20_err (e : rerr) : Z := match e with EUnsupported => 1 | EParse => 2 | EHandler => 3 end.

Definition c20_run (input : list Z) : list Z :=
  match input with
  | kind :: nt :: r0 =>
    match c20_take3 (Z.to_nat nt) r0 with
    | None => ERR_DECODE
    | Some (tab3, r) =>
      (* HashMap::insert: a later handler for the same method replaces the earlier one *)
      let table := table_of (map (fun e => let '(m, h, _) := e in (m, h)) tab3) in
      let kind_of (h : Z) := match find (fun e => let '(_, h', _) := e in h' =? h) tab3 with Some (_, _, k) => k | None => 0 end in
      let accepts (h : Z) (d : rdid) := kind_of h =? 0 in
      if (kind =? 1) || (kind =? 5) then     (* kind 5: the same single resolution on the default (Send + Sync) Resolver *)
        match r with
        | [m; i; ok] =>
            let d := {| r_method := m; r_idn := i |} in
            let answer (h : Z) (x : rdid) := if bz ok then Some (c20_doc h x) else None in
            let '(res, calls) := resolve table accepts answer d in
            (match res with ROk doc => [0; doc] | RErr e => [c20_err e] end)
            ++ Z.of_nat (length calls) :: flat_map (fun c => [fst c; r_method (snd c); r_idn (snd c)]) calls
        | _ => ERR_DECODE end
      else if kind =? 2 then
        match r with
        | nd :: r1 =>
            match c20_take3 (Z.to_nat nd) r1 with
            | Some (ds, no :: r2) =>
                match c20_take2 (Z.to_nat no) r2 with
                | Some (ord, []) =>
                    let script (x : rdid) := existsb (fun e => let '(m, i, ok) := e in (m =? r_method x) && (i =? r_idn x) && bz ok) ds in
                    let answer (h : Z) (x : rdid) := if script x then Some (c20_doc h x) else None in
                    let order := map (fun e => {| r_method := fst e; r_idn := snd e |}) ord in
                    match resolve_multiple table accepts answer order with
                    | inl l => 0 :: Z.of_nat (length l) :: flat_map (fun p => [r_method (fst p); r_idn (fst p); snd p]) l
                    | inr _ => [1]
                    end
                | _ => ERR_DECODE end
            | _ => ERR_DECODE end
        | _ => ERR_DECODE end
      else if kind =? 3 then
        match r with
        | [did; key] =>
            let d := expand_did_jwk did key in
            [zb (check d && sets_ok d); Z.of_nat (length (methods d None))]
            ++ map (fun rl => match resolve_method d (query_of_url (jwk_method_id did)) (Some (SRel rl)) with
                              | Some m => if m_data m =? key then 1 else 2 | None => 0 end) all_rels
        | _ => ERR_DECODE end
      else if kind =? 4 then []
      else ERR_DECODE
    end
  | _ => ERR_DECODE
  end.
