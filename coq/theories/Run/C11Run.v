(* Wire-level entry point of the C11 model (JOSE header policy).
   case: entry first_b64 | p_present hdr | u_present hdr
   hdr : alg b64(0 none,1 true,2 false) crit_present <lp crit> <lp common> custom_present <lp custom>
   entries: 0 compact encoder  1 flattened encoder  2 general encoder (first recipient)
            3 general add_recipient  4 decode flattened  5 decode compact  6 decode general
            7 decode flattened + verify (accept-all verifier)
            8 decode general with TWO signatures: the first has a protected header with b64 = first_b64, the second is (p, u); is the second item handed out? *)
From Coq Require Import List ZArith Bool.
From IdV Require Import Lib.Wire Jose.Header Jose.Policy.
Import ListNotations.
Open Scope Z_scope.

Definition c11_take_hdr (l : list Z) : option (option hdr * list Z) :=
  match l with
  | present :: alg :: b64 :: cp :: r =>
      match take_lp r with
      | Some (crit, r1) =>
          match take_lp r1 with
          | Some (common, r2) =>
              match r2 with
              | kp :: r3 =>
                  match take_lp r3 with
                  | Some (custom, r4) =>
                      let h := {| h_alg := bz alg;
                                  h_b64 := if b64 =? 0 then None else Some (b64 =? 1);
                                  h_crit := if bz cp then Some crit else None;
                                  h_common := common;
                                  h_custom := if bz kp then Some custom else None |} in
                      Some (if bz present then Some h else None, r4)
                  | None => None end
              | [] => None end
          | None => None end
      | None => None end
  | _ => None
  end.

(* entry 9 (known class K_custom_registered): crit / b64 carried in the custom map.  The policy functions read the dedicated fields only,
   so the faithful model of the header is {alg; no b64; no crit; custom = {crit / b64}} and every encoder accepts it *)
Definition c11_custom_map_header (v : Z) : hdr :=
  {| h_alg := true; h_b64 := None; h_crit := None; h_common := [];
     h_custom := Some (if v =? 0 then [N_CRIT] else if v =? 1 then [N_B64] else if v =? 2 then [N_B64; N_CRIT] else [N_CRIT]) |}.
Definition c11_run (input : list Z) : list Z :=
  match input with
  | [9; v; e] => [zb (if e =? 0 then enc_compact (c11_custom_map_header v) else enc_json (Some (c11_custom_map_header v)) None)]
  | entry :: fb :: r =>
      match c11_take_hdr r with
      | Some (p, r1) =>
          match c11_take_hdr r1 with
          | Some (u, []) =>
              let res :=
                if entry =? 0 then match p with Some h => enc_compact h | None => false end
                else if (entry =? 1) || (entry =? 2) then enc_json p u
                else if entry =? 3 then enc_add_recipient (bz fb) p u
                else if (entry =? 4) || (entry =? 6) then dec_signature p u
                else if (entry =? 8) || (entry =? 10) then dec_general_second (bz fb) p u    (* 10: an undecodable signature in between is skipped by the agreement scan *)
                else if entry =? 5 then match p with Some _ => dec_signature p None | None => false end
                else dec_signature p u && verify_headers_ok p u in
              [zb res]
          | _ => ERR_DECODE
          end
      | None => ERR_DECODE
      end
  | _ => ERR_DECODE
  end.
