(* The portable Roaring serialisation as RevocationBitmap reads and writes it
   (identity_credential/src/revocation/revocation_bitmap_2022/bitmap.rs: serialize_vec / deserialize_slice over
   roaring 0.10.12 src/bitmap/serialization.rs: serialize_into / deserialize_from, and the rebuild
   `RoaringBitmap::from_sorted_iter(bitmap.iter())` that deserialize_slice applies since fix 42568e1).

   A bitmap is a strictly increasing list of 32-bit indices.  On the wire it is cut into containers by the high
   16 bits; a container with at most 4096 members is an array of little-endian u16, a larger one 1024 little-endian
   u64 words (bit l of the container = bit (l mod 8) of byte (l / 8)).  The reader also understands run containers
   (cookie 12347), which the writer never emits.  zlib stays outside (Section variables in Bitmap.v). *)
From Coq Require Import List NArith Bool.
From IdV Require Import Cred.Bitmap.
Import ListNotations.
Open Scope N_scope.

(* ---------- little-endian integers ---------- *)
Definition le16 (x : N) : list N := [x mod 256; x / 256].
Definition le32 (x : N) : list N := [x mod 256; (x / 256) mod 256; (x / 65536) mod 256; x / 16777216].
Definition rd16 (l : list N) : option (N * list N) :=
  match l with a :: b :: r => Some (a + 256 * b, r) | _ => None end.
Definition rd32 (l : list N) : option (N * list N) :=
  match l with a :: b :: c :: d :: r => Some (a + 256 * b + 65536 * c + 16777216 * d, r) | _ => None end.
Definition take_n (n : nat) (l : list N) : option (list N * list N) :=
  if Nat.ltb (length l) n then None else Some (firstn n l, skipn n l).

(* ---------- bitmap containers: 8192 bytes ---------- *)
Definition BITS8 : list N := [0; 1; 2; 3; 4; 5; 6; 7].
Definition BM_BYTES : nat := N.to_nat 8192.
Fixpoint take_lt (b : N) (l : list N) : list N :=
  match l with [] => [] | x :: r => if x <? b then x :: take_lt b r else [] end.
Fixpoint drop_lt (b : N) (l : list N) : list N :=
  match l with [] => [] | x :: r => if x <? b then drop_lt b r else l end.
Definition byte_of_bits (bs : list bool) : N := fold_right (fun (b : bool) acc => (if b then 1 else 0) + 2 * acc) 0 bs.
Definition bits_of (mine : list N) (base : N) : list bool := map (fun i => mem (base + i) mine) BITS8.
Fixpoint pack (fuel : nat) (base : N) (lows : list N) : list N :=
  match fuel with
  | O => []
  | S f => byte_of_bits (bits_of (take_lt (base + 8) lows) base) :: pack f (base + 8) (drop_lt (base + 8) lows)
  end.
Fixpoint unpack (base : N) (bytes : list N) : list N :=
  match bytes with
  | [] => []
  | v :: r => map (N.add base) (filter (N.testbit v) BITS8) ++ unpack (base + 8) r
  end.

(* ---------- the writer (serialize_into) ---------- *)
(* containers of a strictly increasing list: (key, low halves) *)
Fixpoint group (fuel : nat) (s : list N) : list (N * list N) :=
  match fuel, s with
  | S f, x :: _ =>
      let k := x / 65536 in
      (k, map (fun y => y - k * 65536) (take_lt ((k + 1) * 65536) s)) :: group f (drop_lt ((k + 1) * 65536) s)
  | _, _ => []
  end.
Definition is_array (lows : list N) : bool := N.of_nat (length lows) <=? 4096.
Definition cont_bytes (lows : list N) : list N := if is_array lows then flat_map le16 lows else pack BM_BYTES 0 lows.
Definition cont_size (lows : list N) : N := if is_array lows then 2 * N.of_nat (length lows) else 8192.
Definition desc_bytes (c : N * list N) : list N := le16 (fst c) ++ le16 (N.of_nat (length (snd c)) - 1).
Fixpoint offsets (off : N) (cs : list (N * list N)) : list N :=
  match cs with [] => [] | c :: r => le32 off ++ offsets (off + cont_size (snd c)) r end.
Definition ser_conts (cs : list (N * list N)) : list N :=
  let n := N.of_nat (length cs) in
  le32 12346 ++ le32 n ++ flat_map desc_bytes cs ++ offsets (8 + 8 * n) cs ++ flat_map (fun c => cont_bytes (snd c)) cs.
Definition rser (s : list N) : list N := ser_conts (group (length s) s).

(* ---------- the reader (deserialize_from, checked) ---------- *)
Fixpoint rd16s (n : nat) (l : list N) : option (list N * list N) :=
  match n with
  | O => Some ([], l)
  | S m => match rd16 l with
           | Some (x, r) => match rd16s m r with Some (xs, r') => Some (x :: xs, r') | None => None end
           | None => None end
  end.
Fixpoint rd_runs (n : nat) (l : list N) : option (list (N * N) * list N) :=
  match n with
  | O => Some ([], l)
  | S m => match rd16 l with
           | Some (s, r) => match rd16 r with
                            | Some (len, r1) => match rd_runs m r1 with Some (xs, r') => Some ((s, len) :: xs, r') | None => None end
                            | None => None end
           | None => None end
  end.
Fixpoint nrange (fuel : nat) (a : N) : list N := match fuel with O => [] | S f => a :: nrange f (a + 1) end.
Definition run_ok (r : N * N) : bool := fst r + snd r <? 65536.                      (* s.checked_add(len) on u16 *)
Definition in_runs (runs : list (N * N)) (x : N) : bool := existsb (fun r => (fst r <=? x) && (x <=? fst r + snd r)) runs.
Definition LOWS : nat := N.to_nat 65536.
(* one container: the stored values (increasing) and the rest of the stream *)
Definition cont_data (is_run : bool) (card : N) (l : list N) : option (list N * list N) :=
  if is_run then
    match rd16 l with
    | Some (nr, r) =>
        match rd_runs (N.to_nat nr) r with
        | Some (runs, r') => if forallb run_ok runs then Some (filter (in_runs runs) (nrange LOWS 0), r') else None
        | None => None end
    | None => None end
  else if card <=? 4096 then
    match rd16s (N.to_nat card) l with
    | Some (vs, r) => if sorted vs then Some (vs, r) else None                        (* ArrayStore::try_from *)
    | None => None end
  else
    match take_n BM_BYTES l with
    | Some (bs, r) => let vs := unpack 0 bs in if N.of_nat (length vs) =? card then Some (vs, r) else None   (* BitmapStore::try_from: declared count = bits set *)
    | None => None end.
Fixpoint rd_descs (n : nat) (l : list N) : option (list (N * N) * list N) :=
  match n with
  | O => Some ([], l)
  | S m => match rd16 l with
           | Some (key, r) => match rd16 r with
                              | Some (c1, r1) => match rd_descs m r1 with Some (xs, r') => Some ((key, c1 + 1) :: xs, r') | None => None end
                              | None => None end
           | None => None end
  end.
Fixpoint rd_conts (descs : list (N * N)) (rb : option (list N)) (idx : N) (data : list N) : option (list (N * list N)) :=
  match descs with
  | [] => Some []
  | (key, card) :: ds =>
      let is_run := match rb with Some bm => N.testbit (nth (N.to_nat (idx / 8)) bm 0) (idx mod 8) | None => false end in
      match cont_data is_run card data with
      | Some (vs, r) => match rd_conts ds rb (idx + 1) r with Some cs => Some ((key, vs) :: cs) | None => None end
      | None => None end
  end.
Definition rd_header (z : list N) : option (N * bool * bool * list N) :=     (* size, has_offsets, has_run_containers, rest *)
  match rd32 z with
  | None => None
  | Some (cookie, r1) =>
      if cookie =? 12346 then match rd32 r1 with Some (size, r2) => Some (size, true, false, r2) | None => None end
      else if cookie mod 65536 =? 12347 then Some (cookie / 65536 + 1, 4 <=? cookie / 65536 + 1, true, r1)
      else None
  end.
Definition rdecode_conts (z : list N) : option (list (N * list N)) :=
  match rd_header z with
  | None => None
  | Some (size, has_off, has_runs, r2) =>
      match (if has_runs then match take_n (N.to_nat ((size + 7) / 8)) r2 with Some (bm, r3) => Some (Some bm, r3) | None => None end
             else Some (None, r2)) with
      | None => None
      | Some (rb, r3) =>
          if 65536 <? size then None else
          match rd_descs (N.to_nat size) r3 with
          | None => None
          | Some (descs, r4) =>
              match (if has_off then match take_n (N.to_nat (4 * size)) r4 with Some (_, r5) => Some r5 | None => None end else Some r4) with
              | None => None
              | Some r5 => rd_conts descs rb 0 r5
              end
          end
      end
  end.
Definition cont_values (c : N * list N) : list N := map (fun v => fst c * 65536 + v) (snd c).
(* deserialize_slice: the values in stored order, accepted when strictly increasing (from_sorted_iter) *)
Definition rdecode (z : list N) : option (list N) :=
  match rdecode_conts z with
  | Some cs => let vs := flat_map cont_values cs in if sorted vs then Some vs else None
  | None => None
  end.
(* what the pinned tree kept: the container structure itself (an empty container makes serialize_into underflow) *)
Definition has_empty_container (z : list N) : bool :=
  match rdecode_conts z with Some cs => existsb (fun c => match snd c with [] => true | _ => false end) cs | None => false end.

(* the codec of a RevocationBitmap2022 endpoint: zlib (third party, Section variables) over the roaring bytes *)
Section ZlibCodec.
Variable zc : list N -> list N.
Variable zd : list N -> option (list N).
Definition comp_r (s : list N) : list N := zc (rser s).
Definition decomp_r (z : list N) : option (list N) := match zd z with Some b => rdecode b | None => None end.
End ZlibCodec.
(* a stand-in deflate ("stored" without framing) used to show that what is asked of zlib can be met *)
Definition toy_zc (b : list N) : list N := 120 :: 156 :: b.
Definition toy_zd (z : list N) : option (list N) :=
  match z with
  | a :: b :: r => if (a =? 120) && (b =? 156) && forallb (fun x => x <? 256) r then Some r else None
  | _ => None
  end.
