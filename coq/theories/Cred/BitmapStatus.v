(* RevocationBitmapStatus (identity_credential/src/credential/revocation_bitmap_status.rs): the credentialStatus entry that
   points at a RevocationBitmap2022 service.  `try_from(Status)` wants the type name, a string property
   revocationBitmapIndex that `u32::from_str` reads, and every query pair named "index" of the id to read as the same number.
   The query pairs are the url crate's (form-urlencoded decoding is third party): the decoded values enter as data. *)
From Coq Require Import List NArith Bool.
Import ListNotations.
Open Scope N_scope.

Definition U32_MAX : N := 4294967295.
Definition is_digit (c : N) : bool := (48 <=? c) && (c <=? 57).
(* core::num from_str_radix, radix 10, unsigned: every character a digit, checked multiply-and-add *)
Fixpoint digits_val (acc : N) (l : list N) : option N :=
  match l with
  | [] => Some acc
  | c :: r => if is_digit c then (if acc * 10 + (c - 48) <=? U32_MAX then digits_val (acc * 10 + (c - 48)) r else None) else None
  end.
Definition parse_u32 (s : list N) : option N :=
  match s with
  | [] => None                                              (* IntErrorKind::Empty *)
  | c :: r => if c =? 43 then (match r with [] => None | _ => digits_val 0 r end)   (* a leading '+' is allowed, alone it is not *)
              else digits_val 0 s                           (* '-' is not a digit for an unsigned type *)
  end.
(* u32::to_string *)
Fixpoint digits_rev (fuel : nat) (n : N) : list N :=
  match fuel with
  | O => []
  | S f => if n <? 10 then [48 + n] else (48 + n mod 10) :: digits_rev f (n / 10)
  end.
Definition print_u32 (n : N) : list N := rev (digits_rev 10 n).

Inductive idxprop := IpAbsent | IpNotString | IpStr (s : list N).
Record bstatus := { bst_type_ok : bool; bst_prop : idxprop; bst_query_index : list (list N) }.
Definition status_try_from (st : bstatus) : option N :=
  if negb (bst_type_ok st) then None else
  match bst_prop st with
  | IpStr s =>
      match parse_u32 s with
      | Some n => if forallb (fun v => match parse_u32 v with Some m => m =? n | None => false end) (bst_query_index st) then Some n else None
      | None => None
      end
  | _ => None
  end.
(* RevocationBitmapStatus::new(id, index): the query is replaced by index=<n>, the property is the printed number *)
Definition status_new (n : N) : bstatus := {| bst_type_ok := true; bst_prop := IpStr (print_u32 n); bst_query_index := [print_u32 n] |}.
(* check_status over a resolved bitmap (JwtCredentialValidatorUtils::check_revocation_bitmap_status): 0 valid, 1 revoked, 2 invalid status *)
Definition status_check (st : bstatus) (id_ok : bool) (bitmap : list N) : N :=
  match status_try_from st with
  | Some n => if negb id_ok then 2 else if existsb (N.eqb n) bitmap then 1 else 0
  | None => 2
  end.
