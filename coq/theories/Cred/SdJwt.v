(* SD-JWT credentials and key-binding JWTs (identity_credential/src/validator/sd_jwt/validator.rs).
   The credential path is C02's with one more step (the disclosures are decoded into the signed claims by the
   sd-jwt-payload crate: an oracle).  The key-binding path follows the order of the code. *)
From Coq Require Import List ZArith Bool.
From IdV Require Import Lib.Outcome Doc.Doc Core.Timestamp Cred.Validate.
Import ListNotations.
Open Scope Z_scope.

(* ---------------- credential path ---------------- *)
Record sdtoken := { sd_tok : token;          (* header, verifier, and what the claims convert to AFTER disclosure decoding *)
                    sd_decodes : bool }.     (* SdObjectDecoder::decode succeeds on (signed claims, supplied disclosures) *)
Definition sd_verify_signature (t : sdtoken) (issuers : list issuer) (o : vopts) : vcred + verr :=
  match parse_jwk (sd_tok t) issuers o with
  | inr e => inr e
  | inl (key, u) =>
    if negb (t_sig_ok (sd_tok t) key) then inr VSignature else
    if negb (sd_decodes t) then inr VSdDecode else
    match t_claims (sd_tok t) with
    | None => inr VClaims
    | Some c => match v_issuer c with
                | None => inr VSignerUrl
                | Some d => if d =? u_did u then inl c else inr VIdentifierMismatch
                end
    end
  end.
Definition sd_validate (t : sdtoken) (i : issuer) (o : vopts) (fail_fast : bool) : vcred + list verr :=
  match sd_verify_signature t [i] o with
  | inr e => inr [e]
  | inl c => validate_decoded c [i] o fail_fast
  end.

(* ---------------- key-binding JWT ---------------- *)
Definition KB_TYP : Z := 1.                    (* the constant sd-jwt-payload exports for the typ header *)
Record kbclaims := { kc_sd_hash : Z; kc_nonce : Z; kc_aud : Z; kc_iat : Z }.
Record kbtoken := { kb_present : bool;
                    kb_sd_ok : bool;            (* the SD-JWT's own JWS decodes, its claims are an object, the hasher is known *)
                    kb_digest : Z;              (* hash over  jwt ~ disclosures ~  with that hasher *)
                    kb_decodes : bool;          (* the KB-JWT is a compact JWS *)
                    kb_typ : option Z;
                    kb_kid : kid;
                    kb_sig_ok : Z -> bool;
                    kb_claims : option kbclaims }.
Record kbopts := { ko_nonce : option Z; ko_aud : option Z; ko_method_id : option url; ko_scope : option scope;
                   ko_earliest : option Z; ko_latest : option Z }.
Inductive kberr := KMissing | KSdJwt | KDecode | KTyp | KKidMissing | KKidParse | KMethodLookup | KSignature | KClaims
                 | KDigest | KNonce | KAud | KIatRange | KIatEarly | KIatLate | KIatFuture.

(* [signature_failure] is what a KB-JWT whose signature does not verify produces: the repaired tree returns an
   error, the pinned tree unwrapped the verification result *)
Definition validate_kb_with (signature_failure : outcome kbclaims kberr) (now : Z) (t : kbtoken) (holder : doc) (o : kbopts) : outcome kbclaims kberr :=
  if negb (kb_present t) then Err KMissing else
  if negb (kb_sd_ok t) then Err KSdJwt else
  if negb (kb_decodes t) then Err KDecode else
  match kb_typ t with
  | None => Err KTyp
  | Some ty =>
    if negb (ty =? KB_TYP) then Err KTyp else
    match (match ko_method_id o with
           | Some u => inl u
           | None => match kb_kid t with KidAbsent => inr KKidMissing | KidUnparsable => inr KKidParse | Kid u => inl u end end) with
    | inr e => Err e
    | inl u =>
      match resolve_method holder (query_of_url u) (ko_scope o) with
      | None => Err KMethodLookup
      | Some m =>
        if negb (is_jwk (m_data m)) then Err KMethodLookup else
        if negb (kb_sig_ok t (m_data m)) then signature_failure else
        match kb_claims t with
        | None => Err KClaims
        | Some c =>
          if negb (kc_sd_hash c =? kb_digest t) then Err KDigest else
          if negb (match ko_nonce o with Some n => n =? kc_nonce c | None => true end) then Err KNonce else
          if negb (match ko_aud o with Some a => a =? kc_aud c | None => true end) then Err KAud else
          if negb (ts_gate (kc_iat c)) then Err KIatRange else
          if negb (match ko_earliest o with Some e => e <=? kc_iat c | None => true end) then Err KIatEarly else
          match ko_latest o with
          | Some l => if kc_iat c <=? l then Ok c else Err KIatLate
          | None => if kc_iat c <=? now then Ok c else Err KIatFuture
          end
        end
      end
    end
  end.
Definition validate_kb := validate_kb_with (Err KSignature).
Definition validate_kb_pinned := validate_kb_with Panic.
