(* RevocationBitmap2022 (identity_credential/src/revocation/revocation_bitmap_2022/{bitmap,document_ext}.rs).
   A bitmap is a strictly increasing list of indices.  The roaring serialisation and zlib are third-party codecs:
   Section variables comp / decomp (bytes of zlib(roaring(s))), recorded per case by the harness.  The base64url layer
   is Lib/Base64.v; the outer layer of the legacy form is standard-alphabet base64 without padding (multibase Base64). *)
From Coq Require Import List NArith Bool.
From IdV Require Import Lib.Base64 Doc.Doc.
Import ListNotations.
Open Scope N_scope.

Fixpoint ins (x : N) (s : list N) : list N :=
  match s with [] => [x] | y :: r => if x <? y then x :: s else if x =? y then s else y :: ins x r end.
Fixpoint del (x : N) (s : list N) : list N :=
  match s with [] => [] | y :: r => if x =? y then r else if x <? y then s else y :: del x r end.
Definition mem (x : N) (s : list N) : bool := existsb (N.eqb x) s.
Definition revoke_all (idxs s : list N) : list N := fold_left (fun a i => ins i a) idxs s.
Definition unrevoke_all (idxs s : list N) : list N := fold_left (fun a i => del i a) idxs s.
Fixpoint sorted (s : list N) : bool :=
  match s with x :: ((y :: _) as r) => (x <? y) && sorted r | _ => true end.

(* what a bitmap can hold: strictly increasing 32-bit indices *)
Definition valid_set (s : list N) : Prop := sorted s = true /\ Forall (fun x => x < 4294967296) s.

(* standard alphabet *)
Definition b64s_char (s : N) : N :=
  if s <? 26 then 65 + s else if s <? 52 then 71 + s else if s <? 62 then s - 4 else if s =? 62 then 43 else 47.
Definition b64s_val (c : N) : option N :=
  if (65 <=? c) && (c <=? 90) then Some (c - 65)
  else if (97 <=? c) && (c <=? 122) then Some (c - 71)
  else if (48 <=? c) && (c <=? 57) then Some (c + 4)
  else if c =? 43 then Some 62 else if c =? 47 then Some 63 else None.
Definition b64s_encode (bs : list N) : list N := map b64s_char (b64_enc bs).
Definition b64s_decode (s : list N) : option (list N) :=
  match map_opt b64s_val s with Some ss => b64_dec ss | None => None end.

Fixpoint strip_prefix (p l : list N) : option (list N) :=
  match p, l with
  | [], _ => Some l
  | a :: p', b :: l' => if a =? b then strip_prefix p' l' else None
  | _ :: _, [] => None
  end.
Definition starts_with (p l : list N) : bool := match strip_prefix p l with Some _ => true | None => false end.
(* "data:application/octet-stream;base64," *)
Definition DATA_PREFIX : list N :=
  [100;97;116;97;58;97;112;112;108;105;99;97;116;105;111;110;47;111;99;116;101;116;45;115;116;114;101;97;109;59;98;97;115;101;54;52;44].

Section Codec.
Variable comp : list N -> list N.
Variable decomp : list N -> option (list N).
(* which strings are taken for the legacy double-encoded form *)
Variable legacy : list N -> bool.

Definition ser64 (s : list N) : list N := b64u_encode (comp s).
Definition deser64 (data : list N) : option (list N) :=
  let inner := if legacy data
               then match b64s_decode data with
                    | Some d => if forallb (fun c => c <? 128) d then Some d else None   (* String::from_utf8; anything non-ASCII fails here or at the next step *)
                    | None => None end
               else Some data in
  match inner with
  | None => None
  | Some t => match b64u_decode t with Some z => decomp z | None => None end
  end.

Inductive endpoint := EpOne (text : list N) | EpOther.
Record bsvc := { bs_id : url; bs_type_ok : bool; bs_ep : endpoint }.
Definition to_endpoint (s : list N) : endpoint := EpOne (DATA_PREFIX ++ ser64 s).
Definition to_service (id : url) (s : list N) : bsvc := {| bs_id := id; bs_type_ok := true; bs_ep := to_endpoint s |}.
Definition try_from_service (sv : bsvc) : option (list N) :=
  if negb (bs_type_ok sv) then None else
  match bs_ep sv with
  | EpOne t => match strip_prefix DATA_PREFIX t with Some enc => deser64 enc | None => None end
  | EpOther => None
  end.

(* document_ext.rs *)
Definition bdoc := list bsvc.
Definition resolve_bitmap (d : bdoc) (q : query) : option (list N) :=
  match find (fun sv => qmatches q (bs_id sv)) d with Some sv => try_from_service sv | None => None end.
Fixpoint replace_first (d : bdoc) (q : query) (ep : endpoint) : bdoc :=
  match d with
  | [] => []
  | sv :: r => if qmatches q (bs_id sv) then {| bs_id := bs_id sv; bs_type_ok := bs_type_ok sv; bs_ep := ep |} :: r else sv :: replace_first r q ep
  end.
Definition update_bitmap (d : bdoc) (q : query) (f : list N -> list N) : option bdoc :=
  match resolve_bitmap d q with
  | None => None
  | Some bm => Some (replace_first d q (to_endpoint (f bm)))
  end.
Definition revoke_credentials (d : bdoc) (q : query) (idxs : list N) : option bdoc := update_bitmap d q (revoke_all idxs).
Definition unrevoke_credentials (d : bdoc) (q : query) (idxs : list N) : option bdoc := update_bitmap d q (unrevoke_all idxs).
End Codec.

(* the test for the legacy form: the repaired tree looks for the zlib header "eJ", the pinned tree for "eJy" *)
Definition legacy_fixed (data : list N) : bool := negb (starts_with [101; 74] data).
Definition legacy_pinned (data : list N) : bool := negb (starts_with [101; 74; 121] data).
