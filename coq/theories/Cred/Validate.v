(* JWT credential validation (identity_credential/src/validator/jwt_credential_validation/
   jwt_credential_validator.rs + jwt_credential_validator_utils.rs) over the C04 document model.
   The JWS layer (C01) and the claims conversion (C07) enter as the fields of [token]:
   the signature verifier is a predicate on the key it is given, the claims either convert to a
   credential view or not. *)
From Coq Require Import List ZArith Bool.
From IdV Require Import Doc.Doc.
Import ListNotations.
Open Scope Z_scope.

Inductive smode := AlwaysSubject | SubjectOnNonTransferable | AnyRel.
Inductive stmode := Strict | SkipUnsupported | SkipAll.
(* a credentialStatus entry: its type, whether RevocationBitmapStatus::try_from + id() + index() succeed, the service it names, the index *)
Record status := { st_bitmap_type : bool; st_well_formed : bool; st_svc : url; st_index : Z }.
(* what validation reads off the decoded credential *)
Record vcred := { v_issuer : option Z;           (* the issuer URL as a DID, None when it is not a DID *)
                  v_issued : Z; v_expires : option Z;
                  v_ctx_ok : bool; v_type_ok : bool; v_sub_id : option Z; v_sub_empty : bool;
                  v_nontransf : option bool; v_status : option status }.
Inductive kid := KidAbsent | KidUnparsable | Kid (u : url).
Record token := { t_nonce : option Z; t_kid : kid;
                  t_sig_ok : Z -> bool;           (* the verifier's answer for the key it is handed *)
                  t_claims : option vcred }.      (* None: the claims do not convert (C07) *)
(* a trusted issuer document: services that are revocation bitmaps carry their revoked indices *)
Record issuer := { is_id : Z; is_doc : doc; is_bitmap : Z -> option (list Z) }.  (* service payload -> decoded bitmap *)
Record vopts := { o_nonce : option Z; o_method_id : option url; o_scope : option scope;
                  o_earliest_expiry : Z; o_latest_issuance : Z; o_sh : option (Z * smode); o_status : stmode }.

Inductive verr := VNonce | VKidMissing | VKidParse | VDocMismatch | VMethodLookup | VSignature | VClaims | VSignerUrl
                | VIdentifierMismatch | VIssuance | VExpiry | VStructure | VSubjectHolder | VStatusInvalid | VServiceLookup | VRevoked
                | VSdDecode.      (* SD-JWT only: the disclosures do not decode into the signed claims *)

Definition oz_eqb (a b : option Z) : bool := match a, b with Some x, Some y => x =? y | None, None => true | _, _ => false end.
Definition is_jwk (data : Z) : bool := 0 <=? data.      (* method data that is a publicKeyJwk *)

(* parse_jwk *)
Definition method_id_of (t : token) (o : vopts) : url + verr :=
  match o_method_id o with
  | Some u => inl u
  | None => match t_kid t with KidAbsent => inr VKidMissing | KidUnparsable => inr VKidParse | Kid u => inl u end
  end.
Definition parse_jwk (t : token) (issuers : list issuer) (o : vopts) : (Z * url) + verr :=
  if negb (oz_eqb (t_nonce t) (o_nonce o)) then inr VNonce else
  match method_id_of t o with
  | inr e => inr e
  | inl u =>
    match find (fun i => is_id i =? u_did u) issuers with
    | None => inr VDocMismatch
    | Some i => match resolve_method (is_doc i) (query_of_url u) (o_scope o) with
                | Some m => if is_jwk (m_data m) then inl (m_data m, u) else inr VMethodLookup
                | None => inr VMethodLookup
                end
    end
  end.
(* verify_signature_with_verifier *)
Definition verify_signature (t : token) (issuers : list issuer) (o : vopts) : vcred + verr :=
  match parse_jwk t issuers o with
  | inr e => inr e
  | inl (key, u) =>
    if negb (t_sig_ok t key) then inr VSignature else
    match t_claims t with
    | None => inr VClaims
    | Some c => match v_issuer c with
                | None => inr VSignerUrl
                | Some d => if d =? u_did u then inl c else inr VIdentifierMismatch
                end
    end
  end.

(* the validation units, in the order they are chained *)
Definition unit_issuance (c : vcred) (o : vopts) : option verr := if v_issued c <=? o_latest_issuance o then None else Some VIssuance.
Definition unit_expiry (c : vcred) (o : vopts) : option verr :=
  match v_expires c with None => None | Some e => if o_earliest_expiry o <=? e then None else Some VExpiry end.
Definition unit_structure (c : vcred) : option verr :=
  if v_ctx_ok c && v_type_ok c && negb (match v_sub_id c with None => v_sub_empty c | Some _ => false end) then None else Some VStructure.
Definition unit_subject_holder (c : vcred) (o : vopts) : option verr :=
  match o_sh o with
  | None => None
  | Some (holder, mode) =>
      let url_matches := match v_sub_id c with Some s => s =? holder | None => false end in
      let ok := match mode with
                | AlwaysSubject => url_matches
                | SubjectOnNonTransferable => url_matches || negb (match v_nontransf c with Some b => b | None => false end)
                | AnyRel => true end in
      if ok then None else Some VSubjectHolder
  end.
Definition unit_status (c : vcred) (issuers : list issuer) (o : vopts) : option verr :=
  match o_status o with
  | SkipAll => None
  | mode =>
    match v_status c with
    | None => None
    | Some st =>
      if negb (st_bitmap_type st) then match mode with SkipUnsupported => None | _ => Some VStatusInvalid end else
      if negb (st_well_formed st) then Some VStatusInvalid else
      match v_issuer c with
      | None => Some VSignerUrl
      | Some d =>
        match find (fun i => is_id i =? d) issuers with
        | None => Some VDocMismatch
        | Some i => match resolve_service (is_doc i) (query_of_url (st_svc st)) with
                    | None => Some VServiceLookup
                    | Some sv => match is_bitmap i (s_data sv) with
                                 | None => Some VServiceLookup
                                 | Some revoked => if existsb (fun x => x =? st_index st) revoked then Some VRevoked else None
                                 end
                    end
        end
      end
    end
  end.
Definition units (c : vcred) (issuers : list issuer) (o : vopts) : list (option verr) :=
  [unit_issuance c o; unit_expiry c o; unit_structure c; unit_subject_holder c o; unit_status c issuers o].
Fixpoint errs (l : list (option verr)) : list verr :=
  match l with [] => [] | Some e :: r => e :: errs r | None :: r => errs r end.
Definition validate_decoded (c : vcred) (issuers : list issuer) (o : vopts) (fail_fast : bool) : vcred + list verr :=
  let es := errs (units c issuers o) in
  let es := if fail_fast then firstn 1 es else es in
  match es with [] => inl c | _ => inr es end.
Definition validate (t : token) (i : issuer) (o : vopts) (fail_fast : bool) : vcred + list verr :=
  match verify_signature t [i] o with
  | inr e => inr [e]
  | inl c => validate_decoded c [i] o fail_fast
  end.
