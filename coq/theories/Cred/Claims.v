(* Credential / presentation <-> JWT claims (identity_credential/src/{credential,presentation}/jwt_serialization.rs
   and the decoding half of the two validators).
   Every member is an identifier of an opaque JSON value (Z) compared by equality; timestamps are unix
   seconds (Core/Timestamp.v).  A claims set is the typed record plus the flattened custom-claims map; the
   JSON text in between is modelled by `reparse`: serde writes the record members followed by the custom
   members and, on reading, rejects a member that occurs twice and lets the typed record absorb a
   custom member that carries a registered name. *)
From Coq Require Import List ZArith Bool.
From IdV Require Import Core.Timestamp.
Import ListNotations.
Open Scope Z_scope.

Inductive res (A E : Type) : Type := ROk (a : A) | RErr (e : E).
Arguments ROk {A E} a.
Arguments RErr {A E} e.

Definition oeqb (a b : option Z) : bool :=
  match a, b with Some x, Some y => x =? y | None, None => true | _, _ => false end.

(* ---------------- credentials ---------------- *)
Record cred := { c_ctx : Z; c_id : option Z; c_types : Z; c_sub_id : option Z; c_sub_props : Z; c_issuer : Z;
                 c_issued : Z; c_expires : option Z; c_status : option Z; c_schema : Z; c_refresh : Z; c_tou : Z;
                 c_evidence : Z; c_nontransf : option Z; c_props : Z; c_proof : option Z }.
(* the vc member: the credential minus what the registered claims carry; on input the duplicates may be present *)
Record inner := { i_ctx : Z; i_id : option Z; i_types : Z; i_issuer : option Z; i_sub_id : option Z; i_sub_props : Z;
                  i_issued : option Z; i_expires : option Z; i_status : option Z; i_schema : Z; i_refresh : Z; i_tou : Z;
                  i_evidence : Z; i_nontransf : option Z; i_props : Z; i_proof : option Z }.
Record claims := { k_exp : option Z; k_iss : Z; k_iat : option Z; k_nbf : option Z; k_jti : option Z; k_sub : option Z; k_vc : inner }.
Definition custom := list (Z * Z).       (* member name, value; names are distinct (a JSON object) *)

(* CredentialJwtClaims::new for a single-subject credential *)
Definition to_claims (c : cred) : claims :=
  {| k_exp := c_expires c; k_iss := c_issuer c; k_iat := None; k_nbf := Some (c_issued c); k_jti := c_id c; k_sub := c_sub_id c;
     k_vc := {| i_ctx := c_ctx c; i_id := None; i_types := c_types c; i_issuer := None; i_sub_id := None; i_sub_props := c_sub_props c;
                i_issued := None; i_expires := None; i_status := c_status c; i_schema := c_schema c; i_refresh := c_refresh c;
                i_tou := c_tou c; i_evidence := c_evidence c; i_nontransf := c_nontransf c; i_props := c_props c; i_proof := c_proof c |} |}.

Inductive cerr := EIssuer | EIssued | EExpires | EId | ESubMissing | ESubMismatch | ETimestamp.
(* IssuanceDateClaims::to_issuance_date: nbf if present, else iat; both through Timestamp::from_unix *)
Definition to_issuance_date (iat nbf : option Z) : res Z cerr :=
  match nbf with
  | Some n => if ts_gate n then ROk n else RErr ETimestamp
  | None => match iat with Some i => if ts_gate i then ROk i else RErr ETimestamp | None => RErr ETimestamp end
  end.
Definition check_consistency (k : claims) : res unit cerr :=
  let vc := k_vc k in
  if negb (match i_issuer vc with Some v => v =? k_iss k | None => true end) then RErr EIssuer else
  match to_issuance_date (k_iat k) (k_nbf k) with
  | RErr e => RErr e
  | ROk d =>
    if negb (match i_issued vc with Some v => v =? d | None => true end) then RErr EIssued else
    if negb (match i_expires vc with Some v => match k_exp k with Some e => e =? v | None => false end | None => true end) then RErr EExpires else
    if negb (match i_id vc with Some v => match k_jti k with Some j => j =? v | None => false end | None => true end) then RErr EId else
    match i_sub_id vc with
    | Some v => match k_sub k with None => RErr ESubMissing | Some s => if s =? v then ROk tt else RErr ESubMismatch end
    | None => ROk tt
    end
  end.
Definition from_claims (k : claims) : res cred cerr :=
  match check_consistency k with
  | RErr e => RErr e
  | ROk _ =>
    match to_issuance_date (k_iat k) (k_nbf k) with
    | RErr e => RErr e
    | ROk d =>
      match (match k_exp k with Some e => if ts_gate e then ROk (Some e) else RErr ETimestamp | None => ROk None end) with
      | RErr e => RErr e
      | ROk ex =>
        let vc := k_vc k in
        ROk {| c_ctx := i_ctx vc; c_id := k_jti k; c_types := i_types vc; c_sub_id := k_sub k; c_sub_props := i_sub_props vc;
              c_issuer := k_iss k; c_issued := d; c_expires := ex; c_status := i_status vc; c_schema := i_schema vc;
              c_refresh := i_refresh vc; c_tou := i_tou vc; c_evidence := i_evidence vc; c_nontransf := i_nontransf vc;
              c_props := i_props vc; c_proof := i_proof vc |}
      end
    end
  end.

(* ---- the JSON text in between ---- *)
Definition N_EXP := 1. Definition N_ISS := 2. Definition N_IAT := 3. Definition N_NBF := 4. Definition N_JTI := 5.
Definition N_SUB := 6. Definition N_VC := 7. Definition N_AUD := 8. Definition N_VP := 9.
Fixpoint cu_get (cu : custom) (n : Z) : option Z :=
  match cu with [] => None | (k, v) :: r => if k =? n then Some v else cu_get r n end.
Definition cu_del (cu : custom) (n : Z) : custom := filter (fun kv => negb (fst kv =? n)) cu.
(* an optional typed member and a custom member of the same name: twice -> rejected; once -> the typed member has it *)
Definition absorb (field : option Z) (n : Z) (cu : custom) : option (option Z * custom) :=
  match cu_get cu n with
  | None => Some (field, cu)
  | Some v => match field with Some _ => None | None => Some (Some v, cu_del cu n) end
  end.
Definition reparse (k : claims) (cu : custom) : option (claims * custom) :=
  match cu_get cu N_ISS, cu_get cu N_VC with
  | None, None =>
    match absorb (k_exp k) N_EXP cu with None => None | Some (e, cu1) =>
    match absorb (k_iat k) N_IAT cu1 with None => None | Some (ia, cu2) =>
    match absorb (k_nbf k) N_NBF cu2 with None => None | Some (nb, cu3) =>
    match absorb (k_jti k) N_JTI cu3 with None => None | Some (jt, cu4) =>
    match absorb (k_sub k) N_SUB cu4 with None => None | Some (sb, cu5) =>
      Some ({| k_exp := e; k_iss := k_iss k; k_iat := ia; k_nbf := nb; k_jti := jt; k_sub := sb; k_vc := k_vc k |}, cu5)
    end end end end end
  | _, _ => None
  end.
Definition cred_registered (n : Z) : bool := (1 <=? n) && (n <=? 7).
Definition custom_ok (cu : custom) : bool := forallb (fun kv => negb (cred_registered (fst kv))) cu.
(* issue then decode: serialize_jwt, then the validator's decoding *)
Definition cred_roundtrip (c : cred) (cu : custom) : option (res cred cerr * custom) :=
  match reparse (to_claims c) cu with None => None | Some (k, cu') => Some (from_claims k, cu') end.
Definition cred_wf (c : cred) : bool := ts_gate (c_issued c) && match c_expires c with Some e => ts_gate e | None => true end.

(* ---------------- presentations ---------------- *)
Record pres := { p_ctx : Z; p_id : option Z; p_types : Z; p_vcs : Z; p_holder : Z; p_refresh : Z; p_tou : Z; p_props : Z; p_proof : option Z }.
Record popts := { o_expires : option Z; o_issued : option Z; o_aud : option Z }.
Record pinner := { pi_ctx : Z; pi_id : option Z; pi_types : Z; pi_vcs : Z; pi_holder : option Z; pi_refresh : Z; pi_tou : Z; pi_props : Z; pi_proof : option Z }.
Record pclaims := { pk_exp : option Z; pk_iss : Z; pk_iat : option Z; pk_nbf : option Z; pk_jti : option Z; pk_aud : option Z; pk_vp : pinner }.
Definition to_pclaims (p : pres) (o : popts) : pclaims :=
  {| pk_exp := o_expires o; pk_iss := p_holder p; pk_iat := None; pk_nbf := o_issued o; pk_jti := p_id p; pk_aud := o_aud o;
     pk_vp := {| pi_ctx := p_ctx p; pi_id := None; pi_types := p_types p; pi_vcs := p_vcs p; pi_holder := None; pi_refresh := p_refresh p;
                 pi_tou := p_tou p; pi_props := p_props p; pi_proof := p_proof p |} |}.
Inductive perr := PId | PHolder | PTimestamp.
Definition pcheck (k : pclaims) : res unit perr :=
  let vp := pk_vp k in
  if negb (match pi_id vp with Some v => match pk_jti k with Some j => j =? v | None => false end | None => true end) then RErr PId else
  if negb (match pi_holder vp with Some v => pk_iss k =? v | None => true end) then RErr PHolder else ROk tt.
(* what the validator decodes besides the signature: expiry, issuance, audience, then the presentation *)
Record pdecoded := { d_pres : pres; d_expires : option Z; d_issued : option Z; d_aud : option Z }.
Definition from_pclaims (k : pclaims) : res pdecoded perr :=
  match (match pk_exp k with Some e => if ts_gate e then ROk (Some e) else RErr PTimestamp | None => ROk None end) with
  | RErr e => RErr e
  | ROk ex =>
    match (match pk_iat k, pk_nbf k with
           | None, None => ROk None
           | ia, nb => match to_issuance_date ia nb with ROk d => ROk (Some d) | RErr _ => RErr PTimestamp end end) with
    | RErr e => RErr e
    | ROk isd =>
      match pcheck k with
      | RErr e => RErr e
      | ROk _ => let vp := pk_vp k in
          ROk {| d_pres := {| p_ctx := pi_ctx vp; p_id := pk_jti k; p_types := pi_types vp; p_vcs := pi_vcs vp; p_holder := pk_iss k;
                             p_refresh := pi_refresh vp; p_tou := pi_tou vp; p_props := pi_props vp; p_proof := pi_proof vp |};
                d_expires := ex; d_issued := isd; d_aud := pk_aud k |}
      end
    end
  end.
(* the presentation claims hold Option<IssuanceDateClaims> flattened: when iat or nbf occurs twice the inner
   record fails to parse and serde yields None for the whole option instead of an error *)
Definition absorb_issuance (iat nbf : option Z) (cu : custom) : option Z * option Z * custom :=
  match absorb iat N_IAT cu with
  | None => (None, None, cu_del (cu_del cu N_IAT) N_NBF)
  | Some (ia, cu2) => match absorb nbf N_NBF cu2 with
                      | None => (None, None, cu_del (cu_del cu N_IAT) N_NBF)
                      | Some (nb, cu3) => (ia, nb, cu3)
                      end
  end.
Definition preparse (k : pclaims) (cu : custom) : option (pclaims * custom) :=
  match cu_get cu N_ISS, cu_get cu N_VP with
  | None, None =>
    match absorb (pk_exp k) N_EXP cu with None => None | Some (e, cu1) =>
    match absorb_issuance (pk_iat k) (pk_nbf k) cu1 with (ia, nb, cu3) =>
    match absorb (pk_jti k) N_JTI cu3 with None => None | Some (jt, cu4) =>
    match absorb (pk_aud k) N_AUD cu4 with None => None | Some (au, cu5) =>
      Some ({| pk_exp := e; pk_iss := pk_iss k; pk_iat := ia; pk_nbf := nb; pk_jti := jt; pk_aud := au; pk_vp := pk_vp k |}, cu5)
    end end end end
  | _, _ => None
  end.
Definition pres_registered (n : Z) : bool := ((1 <=? n) && (n <=? 5)) || (n =? N_AUD) || (n =? N_VP).
Definition pcustom_ok (cu : custom) : bool := forallb (fun kv => negb (pres_registered (fst kv))) cu.
Definition pres_roundtrip (p : pres) (o : popts) (cu : custom) : option (res pdecoded perr * custom) :=
  match preparse (to_pclaims p o) cu with None => None | Some (k, cu') => Some (from_pclaims k, cu') end.
Definition popts_wf (o : popts) : bool :=
  match o_expires o with Some e => ts_gate e | None => true end && match o_issued o with Some e => ts_gate e | None => true end.
