(* JWT presentation validation (identity_credential/src/validator/jwt_presentation_validation/jwt_presentation_validator.rs
   with CoreDocument::verify_jws) over the C04 document model and the C07 claims model. *)
From Coq Require Import List ZArith Bool.
From IdV Require Import Doc.Doc Core.Timestamp Cred.Claims Cred.Validate.
Import ListNotations.
Open Scope Z_scope.

(* the kid of a presentation is used as a query string: full DID URL, relative (#fragment) or bare fragment *)
Record ptoken := { pt_nonce : option Z; pt_kid : option query;
                   pt_sig_ok : Z -> bool;
                   pt_claims : option pclaims;      (* None: the claims set does not deserialise *)
                   pt_iss_did : option Z }.         (* the iss claim as a DID, None when it is not a DID *)
Record holder := { h_id : Z; h_doc : doc }.
Record pvopts := { po_nonce : option Z; po_method_id : option url; po_scope : option scope; po_earliest_expiry : Z; po_latest_issuance : Z }.
Inductive pverr := PVNonce | PVKidMissing | PVMethodNotFound | PVKeyMaterial | PVSignature | PVClaims | PVSignerUrl | PVDocMismatch
                 | PVTimestamp | PVExpiry | PVIssuance | PVInconsistent.

(* CoreDocument::verify_jws *)
Definition verify_jws (t : ptoken) (h : holder) (o : pvopts) : unit + pverr :=
  if negb (oz_eqb (pt_nonce t) (po_nonce o)) then inr PVNonce else
  match (match po_method_id o with Some u => Some (query_of_url u) | None => pt_kid t end) with
  | None => inr PVKidMissing
  | Some q => match resolve_method (h_doc h) q (po_scope o) with
              | None => inr PVMethodNotFound
              | Some m => if negb (is_jwk (m_data m)) then inr PVKeyMaterial
                          else if pt_sig_ok t (m_data m) then inl tt else inr PVSignature
              end
  end.
Definition gate_opt (x : option Z) : res (option Z) pverr :=
  match x with Some e => if ts_gate e then ROk (Some e) else RErr PVTimestamp | None => ROk None end.
(* JwtPresentationValidator::validate, in the order of the code *)
Definition validate_pres (t : ptoken) (h : holder) (o : pvopts) : pdecoded + pverr :=
  match verify_jws t h o with
  | inr e => inr e
  | inl _ =>
    match pt_claims t with
    | None => inr PVClaims
    | Some k =>
      match pt_iss_did t with
      | None => inr PVSignerUrl
      | Some d =>
        if negb (d =? h_id h) then inr PVDocMismatch else
        match gate_opt (pk_exp k) with
        | RErr e => inr e
        | ROk ex =>
          if negb (match ex with None => true | Some e => po_earliest_expiry o <=? e end) then inr PVExpiry else
          match (match pk_iat k, pk_nbf k with
                 | None, None => ROk None
                 | ia, nb => match to_issuance_date ia nb with ROk d => ROk (Some d) | RErr _ => RErr PVTimestamp end end) with
          | RErr e => inr e
          | ROk isd =>
            if negb (match isd with None => true | Some i => i <=? po_latest_issuance o end) then inr PVIssuance else
            match pcheck k with
            | RErr _ => inr PVInconsistent
            | ROk _ => let vp := pk_vp k in
                inl {| d_pres := {| p_ctx := pi_ctx vp; p_id := pk_jti k; p_types := pi_types vp; p_vcs := pi_vcs vp; p_holder := pk_iss k;
                                    p_refresh := pi_refresh vp; p_tou := pi_tou vp; p_props := pi_props vp; p_proof := pi_proof vp |};
                       d_expires := ex; d_issued := isd; d_aud := pk_aud k |}
            end
          end
        end
      end
    end
  end.
