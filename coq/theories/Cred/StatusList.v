(* Model of StatusList2021 (status_list.rs), StatusList2021Credential / MutStatusList
   (credential.rs) and check_status_with_status_list_2021 (jwt_credential_validator_utils.rs),
   as of the tree after the two `fix:` commits (clear mask, lazy bounds test).
   Bytes are N < 256.  gzip is an opaque codec (Section variables); the Base64 layer around it (multibase Base::Base64: the
   standard alphabet without padding) is Lib/Base64.v with the alphabet of Cred/Bitmap.v. *)
From Coq Require Import List NArith Bool.
From IdV Require Import Lib.Outcome Lib.Base64 Doc.Doc Cred.Bitmap.
Import ListNotations.
Open Scope N_scope.

Inductive sl_err := SlIndexOutOfBounds | SlInvalidEncoding | SlInvalidListSize | SlUnreversible.

Definition SL_MIN : N := 131072.   (* 16 * 1024 * 8 *)

(* self.0[i] & (0b1000_0000 >> offset) != 0 *)
Definition sl_get_byte (b o : N) : bool := negb (N.land b (N.shiftr 128 o) =? 0).
(* value: |= 0b1000_0000 >> offset   else: &= !(0b1000_0000 >> offset)   (u8 arithmetic) *)
Definition sl_set_byte (b o : N) (v : bool) : N :=
  if v then N.lor b (N.shiftr 128 o) else N.land b (N.lxor 255 (N.shiftr 128 o)).
(* the pinned tree's clear mask, kept for the refutation lemma of finding F1 *)
Definition sl_set_byte_pinned (b o : N) (v : bool) : N :=
  if v then N.lor b (N.shiftr 128 o) else N.land b (N.shiftr 127 o).

Definition sl_len (l : list N) : N := 8 * N.of_nat (length l).

Fixpoint sl_upd (k : nat) (f : N -> N) (l : list N) : list N :=
  match l, k with
  | [], _ => []
  | x :: r, O => f x :: r
  | x :: r, S k' => x :: sl_upd k' f r
  end.

Definition sl_new (n : N) : outcome (list N) sl_err :=
  if n <? SL_MIN then Err SlInvalidListSize
  else Ok (repeat 0 (N.to_nat (n / 8 + (if n mod 8 =? 0 then 0 else 1)))).

Definition sl_get (l : list N) (i : N) : outcome bool sl_err :=
  if i <? sl_len l then
    match nth_error l (N.to_nat (i / 8)) with
    | Some b => Ok (sl_get_byte b (i mod 8))
    | None => Panic            (* slice index out of range: unreachable, see sl_get_no_panic *)
    end
  else Err SlIndexOutOfBounds.

Definition sl_set (l : list N) (i : N) (v : bool) : outcome (list N) sl_err :=
  if i <? sl_len l then
    match nth_error l (N.to_nat (i / 8)) with
    | Some _ => Ok (sl_upd (N.to_nat (i / 8)) (fun b => sl_set_byte b (i mod 8) v) l)
    | None => Panic
    end
  else Err SlIndexOutOfBounds.

(* ---- credential level ---- *)
Inductive sl_purpose := PRevocation | PSuspension.
Definition sl_purpose_eqb (a b : sl_purpose) : bool :=
  match a, b with PRevocation, PRevocation | PSuspension, PSuspension => true | _, _ => false end.
Inductive sl_status := StRevoked | StSuspended | StValid.

Record sl_cred := { sc_purpose : sl_purpose; sc_list : list N }.

(* MutStatusList::set_entry and StatusList2021Credential::set_entry: same logic *)
Definition sl_set_entry (c : sl_cred) (i : N) (v : bool) : outcome sl_cred sl_err :=
  match sl_get (sc_list c) i with
  | Ok cur =>
      if sl_purpose_eqb (sc_purpose c) PRevocation && negb v && cur then Err SlUnreversible
      else match sl_set (sc_list c) i v with
           | Ok l' => Ok {| sc_purpose := sc_purpose c; sc_list := l' |}
           | Err e => Err e
           | Panic => Panic
           end
  | Err e => Err e
  | Panic => Panic
  end.

Definition sl_entry (c : sl_cred) (i : N) : outcome sl_status sl_err :=
  match sl_get (sc_list c) i with
  | Ok true => Ok (match sc_purpose c with PRevocation => StRevoked | PSuspension => StSuspended end)
  | Ok false => Ok StValid
  | Err e => Err e
  | Panic => Panic
  end.

(* a failed write leaves the credential as it was *)
Definition sl_apply (c : sl_cred) (op : N * bool) : sl_cred :=
  match sl_set_entry c (fst op) (snd op) with Ok c' => c' | _ => c end.
Definition sl_run (ops : list (N * bool)) (c : sl_cred) : sl_cred := fold_left sl_apply ops c.

(* StatusList2021Credential::update with a closure that applies a batch of MutStatusList::set_entry calls to the working copy:
   best effort (every refusal swallowed, the closure returns Ok, the working copy is committed) ... *)
Definition sl_update_best_effort (c : sl_cred) (ops : list (N * bool)) : sl_cred := sl_run ops c.
(* ... or all-or-nothing (the first refusal is propagated with `?`, update then discards the working copy) *)
Fixpoint sl_try_all (ops : list (N * bool)) (c : sl_cred) : outcome sl_cred sl_err :=
  match ops with
  | [] => Ok c
  | op :: r => match sl_set_entry c (fst op) (snd op) with
               | Ok c' => sl_try_all r c'
               | Err e => Err e
               | Panic => Panic
               end
  end.
Definition sl_update_all (c : sl_cred) (ops : list (N * bool)) : sl_cred * outcome unit sl_err :=
  match sl_try_all ops c with Ok c' => (c', Ok tt) | Err e => (c, Err e) | Panic => (c, Panic) end.

(* ---- validator ---- *)
Inductive sl_check := ChkStrict | ChkSkipUnsupported | ChkSkipAll.
Inductive sl_verdict := VOk | VRevoked | VSuspended | VInvalidStatus.

(* entry: None = credential without credentialStatus; Some (parses, id_matches, purpose, index) *)
Definition sl_check_status (c : sl_cred) (mode : sl_check)
           (entry : option (bool * bool * sl_purpose * N)) : sl_verdict :=
  match mode with
  | ChkSkipAll => VOk
  | _ =>
    match entry with
    | None => VOk
    | Some (parses, idm, p, i) =>
        if negb parses then VInvalidStatus
        else if idm && sl_purpose_eqb p (sc_purpose c) then
          match sl_entry c i with
          | Ok StRevoked => VRevoked
          | Ok StSuspended => VSuspended
          | Ok StValid => VOk
          | _ => VInvalidStatus
          end
        else VInvalidStatus
    end
  end.

(* ---- codec: Base64 (modelled) over gzip (opaque) ---- *)
Section Codec.
  Variables (gz : list N -> list N) (gunzip : list N -> option (list N)).
  (* into_encoded_str: BaseEncoding::encode(gzip(bytes), Base::Base64) *)
  Definition sl_encode (l : list N) : list N := b64s_encode (gz l).
  (* try_from_encoded_str: BaseEncoding::decode(s, Base::Base64) then GzDecoder::read_to_end *)
  Definition sl_decode (s : list N) : outcome (list N) sl_err :=
    match b64s_decode s with
    | Some z => match gunzip z with Some l => Ok l | None => Err SlInvalidEncoding end
    | None => Err SlInvalidEncoding
    end.
End Codec.
