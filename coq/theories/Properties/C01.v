(* Property C01 — JWS verification binds the signature to exactly the bytes received.
   Pinned statements; all of them hold for EVERY header (de)serialisation oracle and EVERY
   verifier (Section variables generalised): H = header values, hview = policy view,
   halg = alg value, parse_header = serde, V = the JwsVerifier. *)
From Coq Require Import List NArith ZArith Bool.
From IdV Require Import Lib.Outcome Lib.Base64 Jose.Header Jose.Policy Jose.Jws Proofs.JwsProofs Jose.Jwk Jose.Verifiers Proofs.VerifiersProofs.
Import ListNotations.
Open Scope N_scope.

Section C01.
  Variable H : Type.
  Variable hview : H -> hdr.
  Variable halg : H -> option Z.
  Variable parse_header : list N -> option H.
  Variable V : Z -> list N -> list N -> bool.

  (* compact: the token is P '.' E '.' S with no further '.', the verifier's message is exactly
     P ++ '.' ++ (payload as received: E, or the detached payload when E is empty), the signature is
     the decoding of S, the claims are the payload (base64url-decoded unless b64 = false) *)
  Theorem C01_signing_input_exact_compact : forall tok det it,
    decode_compact H hview parse_header tok det = Ok it ->
    exists P E S, tok = P ++ 46 :: E ++ 46 :: S /\ nodot P /\ nodot E /\ nodot S
      /\ (exists Q, expand_payload det (Some E) = Some Q /\ it_si H it = P ++ [46] ++ Q
            /\ (let b64 := match it_protected H it with Some h => match hb64 H hview h with Some b => b | None => true end | None => true end in
                if b64 then b64u_decode Q = Some (it_claims H it) else it_claims H it = Q))
      /\ b64u_decode S = Some (it_sig H it)
      /\ (exists js h, b64u_decode P = Some js /\ parse_header js = Some h /\ it_protected H it = Some h)
      /\ it_unprotected H it = None.
  Proof. exact (compact_signing_input_exact H hview parse_header). Qed.

  (* flattened / general JSON: same, over the envelope's protected and payload members *)
  Theorem C01_signing_input_exact_json : forall e det it,
    decode_envelope H hview parse_header e det = Ok it ->
    exists Q, expand_payload det (e_payload H e) = Some Q
      /\ it_si H it = (match e_protected H e with Some pb => pb | None => [] end) ++ [46] ++ Q
      /\ b64u_decode (e_signature H e) = Some (it_sig H it)
      /\ it_unprotected H it = e_header H e
      /\ (let b64 := match it_protected H it with Some h => match hb64 H hview h with Some b => b | None => true end | None => true end in
          if b64 then b64u_decode Q = Some (it_claims H it) else it_claims H it = Q).
  Proof. exact (envelope_signing_input_exact H hview parse_header). Qed.

  (* exactly one payload source: attached xor detached (an empty attached payload counts as absent) *)
  Theorem C01_payload_xor : forall det parsed q, expand_payload det parsed = Some q ->
    (det = Some q /\ (parsed = None \/ parsed = Some [])) \/ (det = None /\ parsed = Some q /\ q <> []).
  Proof. exact payload_xor. Qed.

  (* reported verified iff: protected header present, names an alg, the key's pinned alg (if any)
     equals it, and the verifier accepted exactly (alg, signing input, decoded signature) *)
  Theorem C01_verify_sound : forall it kalg d, verify H halg V it kalg = Ok d ->
    d = it /\ exists h a, it_protected H it = Some h /\ halg h = Some a
      /\ (kalg = None \/ kalg = Some a) /\ V a (it_si H it) (it_sig H it) = true.
  Proof. exact (verify_sound H halg V). Qed.
  Theorem C01_verify_complete : forall it kalg h a, it_protected H it = Some h -> halg h = Some a ->
    (kalg = None \/ kalg = Some a) -> V a (it_si H it) (it_sig H it) = true -> verify H halg V it kalg = Ok it.
  Proof. exact (verify_complete H halg V). Qed.
  Theorem C01_alg_protected_only : forall it u kalg,
    let it' := {| it_protected := it_protected H it; it_unprotected := u; it_si := it_si H it; it_sig := it_sig H it; it_claims := it_claims H it |} in
    (exists d, verify H halg V it kalg = Ok d) <-> (exists d, verify H halg V it' kalg = Ok d).
  Proof. exact (verify_ignores_unprotected H halg V). Qed.

  (* the header policy of C11 is enforced on every decoded signature *)
  Theorem C01_decode_enforces_policy : forall payload uh p sg it,
    decode_signature H hview parse_header payload uh p sg = Ok it ->
    policy_ok (oview H hview (it_protected H it)) (oview H hview uh).
  Proof. exact (decode_enforces_policy H hview parse_header). Qed.

  (* a compact token is determined by what it makes the verifier see: two accepted tokens with the
     same signing input and the same signature bytes are the same byte string (uses the canonical
     form of strict base64url).  Hence any change of a verified token - a single flipped bit of the
     protected header, payload or signature included - fails, PROVIDED the signature scheme has no
     second valid (message, signature) pair for the key (hypothesis on V; exercised with real
     Ed25519 / ES256 / ES256K keys by the thorough run) *)
  Theorem C01_token_determined : forall tok tok' det it it',
    decode_compact H hview parse_header tok det = Ok it -> decode_compact H hview parse_header tok' det = Ok it' ->
    it_si H it = it_si H it' -> it_sig H it = it_sig H it' -> tok = tok'.
  Proof. exact (compact_token_determined H hview parse_header). Qed.
  Theorem C01_bitflip_fails : forall tok tok' det it it' kalg a,
    decode_compact H hview parse_header tok det = Ok it -> verify H halg V it kalg = Ok it ->
    (forall m s, V a m s = true -> m = it_si H it /\ s = it_sig H it) ->
    (forall h, it_protected H it' = Some h -> halg h = Some a) ->
    tok' <> tok -> decode_compact H hview parse_header tok' det = Ok it' -> verify H halg V it' kalg = Err JErr.
  Proof. exact (bitflip_fails H hview halg parse_header V). Qed.

  (* general JSON serialisation: items are handed out only when the b64 values of all signatures agree (RFC 7797 s.3), so one
     payload is never read both as base64url text and as raw bytes within one token *)
  Theorem C01_general_items_agree_on_b64 : forall pl es det items,
    decode_general H hview parse_header pl es det = Ok items ->
    length items = length es /\
    forall it1 it2, In (Ok it1) items -> In (Ok it2) items ->
      extract_b64 (oview H hview (it_protected H it1)) = extract_b64 (oview H hview (it_protected H it2)).
  Proof. exact (general_decode_items_agree H hview parse_header). Qed.
End C01.

Print Assumptions C01_signing_input_exact_compact.
Print Assumptions C01_signing_input_exact_json.
Print Assumptions C01_payload_xor.
Print Assumptions C01_verify_sound.
Print Assumptions C01_verify_complete.
Print Assumptions C01_alg_protected_only.
Print Assumptions C01_decode_enforces_policy.
Print Assumptions C01_token_determined.
Print Assumptions C01_bitflip_fails.
Print Assumptions C01_general_items_agree_on_b64.

(* The SHIPPED verifiers (EdDSAJwsVerifier / Ed25519Verifier, EcDSAJwsVerifier / Secp256R1Verifier / Secp256K1Verifier) around their
   cryptographic primitives, for EVERY behaviour of the primitives (point decoding, signature parsing, the signature equation):
   Ok exactly when the header algorithm is the verifier's, the key is of the right family (and, for EdDSA, names Ed25519), its coordinates
   decode to 32 bytes each and to a valid point, the signature AS RECEIVED has exactly 64 bytes and the primitive accepts exactly those
   bytes over exactly the message handed over.  So no prefix, suffix or re-encoding of the received signature is ever what gets verified. *)
Theorem C01_eddsa_verifier_ok_iff : forall ed_point_ok ed_verify a k sg msg,
  eddsa_jws_verify ed_point_ok ed_verify a k sg msg = None <->
  a = AEdDSA /\ vk_family k = KOkp /\ vk_crv k = ED25519
  /\ exists pk, b64u_decode (vk_x k) = Some pk /\ length pk = 32%nat /\ ed_point_ok pk = true
     /\ length sg = 64%nat /\ ed_verify pk sg msg = true.
Proof. exact eddsa_ok_iff. Qed.
Theorem C01_ecdsa_verifier_ok_iff : forall ec_point_ok ec_sig_ok ec_verify a k sg msg,
  ecdsa_jws_verify ec_point_ok ec_sig_ok ec_verify a k sg msg = None <->
  exists k1 : bool, a = (if k1 then AES256K else AES256) /\ vk_family k = KEc
  /\ exists x y, b64u_decode (vk_x k) = Some x /\ b64u_decode (vk_y k) = Some y /\ length x = 32%nat /\ length y = 32%nat
     /\ ec_point_ok k1 (x ++ y) = true /\ length sg = 64%nat /\ ec_sig_ok k1 sg = true /\ ec_verify k1 (x ++ y) sg msg = true.
Proof. exact ecdsa_ok_iff. Qed.
Theorem C01_eddsa_signature_length_exact : forall ed_point_ok ed_verify a k sg msg, length sg <> 64%nat -> eddsa_jws_verify ed_point_ok ed_verify a k sg msg <> None.
Proof. exact eddsa_length_exact. Qed.
(* decoder and shipped verifier together: what JwsValidationItem::verify reports as verified with the EdDSA (ECDSA) verifier is a token whose
   signature segment decodes to EXACTLY 64 bytes that the primitive accepts over EXACTLY the received signing input under the key's coordinates *)
Theorem C01_verified_by_eddsa : forall (H : Type) (halg : H -> option Z) ed_point_ok ed_verify it kalg d k,
  verify H halg (V_eddsa ed_point_ok ed_verify k) it kalg = Ok d ->
  d = it /\ vk_family k = KOkp /\ vk_crv k = ED25519
  /\ exists pk, b64u_decode (vk_x k) = Some pk /\ length pk = 32%nat /\ ed_point_ok pk = true
     /\ length (it_sig H it) = 64%nat /\ ed_verify pk (it_sig H it) (it_si H it) = true.
Proof. exact verified_by_eddsa. Qed.
Theorem C01_verified_by_ecdsa : forall (H : Type) (halg : H -> option Z) ec_point_ok ec_sig_ok ec_verify it kalg d k,
  verify H halg (V_ecdsa ec_point_ok ec_sig_ok ec_verify k) it kalg = Ok d ->
  d = it /\ vk_family k = KEc
  /\ exists (k1 : bool) x y, b64u_decode (vk_x k) = Some x /\ b64u_decode (vk_y k) = Some y /\ length x = 32%nat /\ length y = 32%nat
     /\ ec_point_ok k1 (x ++ y) = true /\ length (it_sig H it) = 64%nat /\ ec_sig_ok k1 (it_sig H it) = true
     /\ ec_verify k1 (x ++ y) (it_sig H it) (it_si H it) = true.
Proof. exact verified_by_ecdsa. Qed.
Print Assumptions C01_verified_by_eddsa.
Print Assumptions C01_verified_by_ecdsa.
Print Assumptions C01_eddsa_verifier_ok_iff.
Print Assumptions C01_ecdsa_verifier_ok_iff.
Print Assumptions C01_eddsa_signature_length_exact.
