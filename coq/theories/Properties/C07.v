(* C07 — Credential/presentation <-> JWT claims conversion is lossless and consistent. Statements only. *)
From Coq Require Import List ZArith Bool.
From IdV Require Import Core.Timestamp Cred.Claims Proofs.ClaimsProofs.
Import ListNotations.
Open Scope Z_scope.

(* issue, write as JSON, read back, convert: the same credential and the same custom claims *)
Theorem C07_cred_roundtrip :
  forall c cu, cred_wf c = true -> custom_ok cu = true -> cred_roundtrip c cu = Some (ROk c, cu).
Proof. exact cred_roundtrip_ok. Qed.
Print Assumptions C07_cred_roundtrip.

Theorem C07_registered_once :
  forall c, let k := to_claims c in
  k_iss k = c_issuer c /\ k_sub k = c_sub_id c /\ k_jti k = c_id c /\ k_nbf k = Some (c_issued c) /\ k_iat k = None /\ k_exp k = c_expires c
  /\ i_issuer (k_vc k) = None /\ i_sub_id (k_vc k) = None /\ i_id (k_vc k) = None /\ i_issued (k_vc k) = None /\ i_expires (k_vc k) = None.
Proof. exact registered_once. Qed.
Print Assumptions C07_registered_once.

(* acceptance characterised: consistent duplicates, used dates in range, and the credential is rebuilt from the registered claims *)
Theorem C07_from_claims_ok_iff :
  forall k c, from_claims k = ROk c <->
  exists d, to_issuance_date (k_iat k) (k_nbf k) = ROk d /\ consistent k d
            /\ (forall e, k_exp k = Some e -> ts_gate e = true) /\ c = rebuilt k d.
Proof. exact from_claims_ok_iff. Qed.
Print Assumptions C07_from_claims_ok_iff.

Theorem C07_inconsistent_rejected :
  forall k,
  (exists v, i_issuer (k_vc k) = Some v /\ v <> k_iss k)
  \/ (exists v d, i_issued (k_vc k) = Some v /\ to_issuance_date (k_iat k) (k_nbf k) = ROk d /\ v <> d)
  \/ (exists v, i_expires (k_vc k) = Some v /\ k_exp k <> Some v)
  \/ (exists v, i_id (k_vc k) = Some v /\ k_jti k <> Some v)
  \/ (exists v, i_sub_id (k_vc k) = Some v /\ k_sub k <> Some v)
  -> exists e, from_claims k = RErr e.
Proof. exact inconsistent_rejected. Qed.
Print Assumptions C07_inconsistent_rejected.

Theorem C07_range_rejected :
  forall k,
  (exists e, k_exp k = Some e /\ ts_gate e = false)
  \/ (exists n, k_nbf k = Some n /\ ts_gate n = false)
  \/ (k_nbf k = None /\ (k_iat k = None \/ exists i, k_iat k = Some i /\ ts_gate i = false))
  -> exists e, from_claims k = RErr e.
Proof. exact range_rejected. Qed.
Print Assumptions C07_range_rejected.

Theorem C07_nbf_over_iat : forall ia ia' n, to_issuance_date ia (Some n) = to_issuance_date ia' (Some n).
Proof. exact nbf_over_iat. Qed.
Print Assumptions C07_nbf_over_iat.

Theorem C07_pres_roundtrip :
  forall p o cu, popts_wf o = true -> pcustom_ok cu = true ->
  pres_roundtrip p o cu = Some (ROk {| d_pres := p; d_expires := o_expires o; d_issued := o_issued o; d_aud := o_aud o |}, cu).
Proof. exact pres_roundtrip_ok. Qed.
Print Assumptions C07_pres_roundtrip.

Theorem C07_pres_inconsistent_rejected :
  forall k, (exists v, pi_id (pk_vp k) = Some v /\ pk_jti k <> Some v) \/ (exists v, pi_holder (pk_vp k) = Some v /\ pk_iss k <> v)
  -> exists e, from_pclaims k = RErr e.
Proof. exact pres_inconsistent_rejected. Qed.
Print Assumptions C07_pres_inconsistent_rejected.

Theorem C07_pres_range_rejected :
  forall k, (exists e, pk_exp k = Some e /\ ts_gate e = false) \/ (exists n, pk_nbf k = Some n /\ ts_gate n = false)
  \/ (pk_nbf k = None /\ exists i, pk_iat k = Some i /\ ts_gate i = false)
  -> exists e, from_pclaims k = RErr e.
Proof. exact pres_range_rejected. Qed.
Print Assumptions C07_pres_range_rejected.

(* custom claims with registered names: twice -> the text is rejected; once -> absorbed (known finding K_custom_registered) *)
Theorem C07_custom_duplicate_rejected :
  forall c cu v,
  cu_get cu N_ISS = Some v \/ cu_get cu N_VC = Some v \/ cu_get cu N_NBF = Some v \/ (cu_get cu N_EXP = Some v /\ c_expires c <> None) ->
  cred_roundtrip c cu = None.
Proof. exact custom_duplicate_rejected. Qed.
Print Assumptions C07_custom_duplicate_rejected.
Theorem C07_custom_registered_refuted :
  cred_wf ex_cred = true /\ exists c', cred_roundtrip ex_cred [(N_EXP, 2000)] = Some (ROk c', []) /\ c' <> ex_cred.
Proof. exact custom_registered_refuted. Qed.
Print Assumptions C07_custom_registered_refuted.
