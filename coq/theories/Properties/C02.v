(* C02 — JWT credential validation accepts only when every checked condition holds. Statements only. *)
From Coq Require Import List ZArith Bool.
From IdV Require Import Doc.Doc Cred.Validate Proofs.ValidateProofs.
Import ListNotations.
Open Scope Z_scope.

(* accepted exactly when: the nonce matches, the kid / configured method id names a JWK method of the issuer document resolvable in
   the configured scope whose key verifies the JWS, the claims convert, the credential's issuer is the DID of that method, and the
   five units hold; the credential returned is the one that was signed *)
Theorem C02_accept_iff :
  forall t i o ff c, validate t i o ff = inl c <-> (signed_by t [i] o c /\ units_ok c [i] o).
Proof. exact validate_accept_iff. Qed.
Print Assumptions C02_accept_iff.

Theorem C02_verify_signature_iff :
  forall t issuers o c, verify_signature t issuers o = inl c <-> signed_by t issuers o c.
Proof. exact verify_signature_ok. Qed.
Print Assumptions C02_verify_signature_iff.

Theorem C02_decoded_ok_iff :
  forall c issuers o ff r, validate_decoded c issuers o ff = inl r <-> (r = c /\ units_ok c issuers o).
Proof. exact validate_decoded_ok. Qed.
Print Assumptions C02_decoded_ok_iff.

(* all errors requested: exactly the failing conditions, each identified *)
Theorem C02_all_errors_exact :
  forall c issuers o es, validate_decoded c issuers o false = inr es ->
  es = errs (units c issuers o) /\ es <> []
  /\ (In VIssuance es <-> ~ v_issued c <= o_latest_issuance o)
  /\ (In VExpiry es <-> ~ (forall e, v_expires c = Some e -> o_earliest_expiry o <= e))
  /\ (In VStructure es <-> ~ structure_ok c)
  /\ (In VSubjectHolder es <-> ~ sh_ok c o)
  /\ ((exists e, In e es /\ (e = VStatusInvalid \/ e = VServiceLookup \/ e = VRevoked \/ e = VDocMismatch \/ e = VSignerUrl)) <-> ~ status_ok c issuers o).
Proof. exact all_errors_exact. Qed.
Print Assumptions C02_all_errors_exact.

Theorem C02_fail_fast_first :
  forall c issuers o es, validate_decoded c issuers o true = inr es ->
  exists e rest, errs (units c issuers o) = e :: rest /\ es = [e].
Proof. exact fail_fast_first. Qed.
Print Assumptions C02_fail_fast_first.

(* fail-fast and all-errors modes agree: both accept the same credential, or both refuse and the
   fail-fast error is the FIRST of the all-errors list; a signature failure is reported alone whatever
   the mode - for every token, issuer and option set *)
Theorem C02_modes_agree : forall t i o,
  match validate t i o true, validate t i o false with
  | inl a, inl b => a = b
  | inr ef, inr ea => exists e rest, ef = [e] /\ ea = e :: rest
  | _, _ => False
  end.
Proof. exact modes_agree. Qed.
Print Assumptions C02_modes_agree.
Theorem C02_signature_error_alone : forall t i o ff e,
  verify_signature t [i] o = inr e -> validate t i o ff = inr [e].
Proof. exact signature_error_alone. Qed.
Print Assumptions C02_signature_error_alone.
