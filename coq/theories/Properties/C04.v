(* Property C04 — DID document id-uniqueness (the deserialisation gate) holds across every
   mutation history.  Pinned statements only. *)
From Coq Require Import List ZArith Bool.
From IdV Require Import Doc.Doc Proofs.DocProofs Proofs.DocResolveProofs.
Import ListNotations.
From IdV Require Import Cred.Bitmap Did.DidParse Doc.UrlQuery Proofs.UrlQueryProofs.
Open Scope Z_scope.

(* the gate `check` says exactly: (P1) every embedded method's id occurs once among all relationship
   entries - no second embedded method with that id and no reference aliasing it; (P2) no general-purpose
   method shares an id with an embedded one; (P3) no service id equals a method or reference id *)
Theorem C04_no_alias : forall d, check d = true <->
  (forall e, In e (entries d) -> is_embed e = true -> count_id (r_id e) (entries d) = 1%nat)
  /\ (forall m e, In m (d_vm d) -> In e (entries d) -> is_embed e = true -> r_id e <> m_id m)
  /\ (forall s, In s (d_svc d) ->
        (forall e, In e (entries d) -> r_id e <> s_id s) /\ (forall m, In m (d_vm d) -> m_id m <> s_id s)).
Proof. exact check_spec. Qed.

(* invariant over EVERY finite operation sequence from EVERY accepted document *)
Theorem C04_inv_preserved : forall ops d, check d = true -> check (drun ops d) = true.
Proof. exact drun_keeps. Qed.

(* per operation (the accepted result satisfies the gate; a refused operation returns the error
   branch / the unchanged document by definition of dstep) *)
Theorem C04_insert_method_keeps : forall d m s d', Gate d -> insert_method d m s = inl d' -> Gate d'.
Proof. exact insert_method_keeps. Qed.
Theorem C04_remove_method_keeps : forall d u, Gate d -> Gate (fst (remove_method d u)).
Proof. exact remove_method_keeps. Qed.
Theorem C04_insert_service_keeps : forall d s d', Gate d -> insert_service d s = inl d' -> Gate d'.
Proof. exact insert_service_keeps. Qed.
Theorem C04_remove_service_keeps : forall d u, Gate d -> Gate (fst (remove_service d u)).
Proof. exact remove_service_keeps. Qed.
Theorem C04_attach_keeps : forall d q r d' b, Gate d -> attach d q r = inl (d', b) -> Gate d'.
Proof. exact attach_keeps. Qed.
Theorem C04_detach_keeps : forall d q r d' b, Gate d -> detach d q r = inl (d', b) -> Gate d'.
Proof. exact detach_keeps. Qed.
Theorem C04_refused_unchanged : forall d m s e, insert_method d m s = inr e -> dstep d (OInsM m s) = d.
Proof. intros d m s e H. cbn. rewrite H. reflexivity. Qed.

(* the gate the deserialiser really runs (the one-pass hash-map check of core_document.rs) IS the declarative gate *)
Theorem C04_constraints_is_check : forall d, check_id_constraints d = check d.
Proof. exact check_id_constraints_eq_check. Qed.
(* OrderedSet uniqueness of the seven collections over EVERY operation sequence *)
Theorem C04_sets_preserved : forall ops d, sets_ok d = true -> sets_ok (drun ops d) = true.
Proof. exact drun_keeps_sets. Qed.
(* hence what from_json accepts stays acceptable to from_json after EVERY operation sequence *)
Theorem C04_accepted_preserved : forall ops d,
  sets_ok d && check_id_constraints d = true -> sets_ok (drun ops d) && check_id_constraints (drun ops d) = true.
Proof. exact drun_keeps_accepted. Qed.

(* resolution refines the abstract set-of-entries model: for a document that passes the gate and a query
   that does not hit two different identifiers (i.e. outside the known class K_path_ambiguous), the answer
   is exactly THE entry that matches - in each scope *)
Theorem C04_resolve_vm_scope : forall d q, SetsOk d -> unamb d q -> forall m,
  resolve_method d q (Some SVm) = Some m <-> In m (d_vm d) /\ qmatches q (m_id m) = true.
Proof. exact resolve_vm_scope. Qed.
Theorem C04_resolve_rel_scope : forall d q, Gate d -> SetsOk d -> unamb d q -> forall r m,
  resolve_method d q (Some (SRel r)) = Some m <->
  qmatches q (m_id m) = true /\ (In (Embed m) (d_rels d r) \/ (In (Refer (m_id m)) (d_rels d r) /\ In m (d_vm d))).
Proof. exact resolve_rel_scope. Qed.
Theorem C04_resolve_no_scope : forall d q, Gate d -> SetsOk d -> unamb d q -> forall m,
  resolve_method d q None = Some m <-> (In m (d_vm d) \/ In (Embed m) (entries d)) /\ qmatches q (m_id m) = true.
Proof. exact resolve_no_scope. Qed.
Theorem C04_resolve_service : forall d q, SetsOk d -> unamb d q -> forall s,
  resolve_service d q = Some s <-> In s (d_svc d) /\ qmatches q (s_id s) = true.
Proof. exact resolve_service_spec. Qed.
Theorem C04_resolve_full_id : forall d u m sc, Gate d -> SetsOk d -> unamb d (query_of_url u) -> id_of d u ->
  resolve_method d (query_of_url u) sc = Some m -> m_id m = u.
Proof. exact resolve_full_id. Qed.
Theorem C04_sets_ok_is_SetsOk : forall d, sets_ok d = true <-> SetsOk d.
Proof. exact sets_ok_spec. Qed.

(* the pinned tree's guard is refuted (finding F14, repaired by fix 20cadcc) *)
Theorem C04_pinned_insert_refuted : exists d m s d',
  check d = true /\ insert_method_pinned d m s = inl d' /\ check d' = false.
Proof. exact insert_pinned_refuted. Qed.

Print Assumptions C04_no_alias.
Print Assumptions C04_inv_preserved.
Print Assumptions C04_insert_method_keeps.
Print Assumptions C04_remove_method_keeps.
Print Assumptions C04_insert_service_keeps.
Print Assumptions C04_remove_service_keeps.
Print Assumptions C04_attach_keeps.
Print Assumptions C04_detach_keeps.
Print Assumptions C04_refused_unchanged.
Print Assumptions C04_pinned_insert_refuted.
Print Assumptions C04_constraints_is_check.
Print Assumptions C04_sets_preserved.
Print Assumptions C04_accepted_preserved.
Print Assumptions C04_resolve_vm_scope.
Print Assumptions C04_resolve_rel_scope.
Print Assumptions C04_resolve_no_scope.
Print Assumptions C04_resolve_service.
Print Assumptions C04_resolve_full_id.
Print Assumptions C04_sets_ok_is_SetsOk.

(* the query TEXT handed to resolve_method / resolve_service (DIDUrlQuery): the three forms the statement names reach the
   structured query of the theorems above.  A full DID URL (DID without / ? #, then nothing or a path / query part, then #fragment)
   matches an id exactly when the DID and the fragment are the id's; "#fragment", a relative URL ending in a fragment, and the
   bare fragment match exactly the ids with that fragment *)
Theorem C04_query_text_full_id : forall pfx did m frag d f,
  starts_with pfx did = true -> no3 did -> mid_ok m -> ~ In 35%N frag -> frag <> [] ->
  q_matches pfx (did ++ m ++ 35%N :: frag) d f = true <-> did = d /\ f = Some frag.
Proof. exact matches_full. Qed.
Print Assumptions C04_query_text_full_id.
Theorem C04_query_text_fragment : forall pfx m frag d f, starts_with pfx (m ++ 35%N :: frag) = false -> ~ In 35%N frag -> frag <> [] ->
  q_matches pfx (m ++ 35%N :: frag) d f = true <-> f = Some frag.
Proof. intros pfx m frag d f H1 H2 H3. apply matches_fragment_only. apply query_relative; assumption. Qed.
Print Assumptions C04_query_text_fragment.
Theorem C04_query_text_bare_fragment : forall pfx frag d f, starts_with pfx frag = false -> ~ In 35%N frag -> frag <> [] ->
  q_matches pfx frag d f = true <-> f = Some frag.
Proof. intros pfx frag d f H1 H2 H3. apply matches_fragment_only. apply query_bare; assumption. Qed.
Print Assumptions C04_query_text_bare_fragment.
(* the pinned tree read every text starting with the letters "did" as a DID URL: the bare fragment "didcomm" matched nothing (repaired: a20822f) *)
Theorem C04_query_text_pinned_refuted :
  let didcomm := [100; 105; 100; 99; 111; 109; 109]%N in
  (forall d, q_matches PFX_PINNED didcomm d (Some didcomm) = false) /\ (forall d, q_matches PFX_FIXED didcomm d (Some didcomm) = true).
Proof. exact pinned_bare_fragment_refuted. Qed.
Print Assumptions C04_query_text_pinned_refuted.
