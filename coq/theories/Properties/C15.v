(* C15 — Shipped key stores honour the key-storage contract over every operation history. Statements only. *)
From Coq Require Import List ZArith Bool.
From IdV Require Import Storage.KeyStore Proofs.KeyStoreProofs.
Import ListNotations.
Open Scope Z_scope.

Theorem C15_generate_output :
  forall s k e sec s' id p, ids_below s -> kstep s (OGenerate k e sec) = (s', RGen id p) ->
  lookup (ks_store s) id = None /\ k = KtEd25519 /\ e = true
  /\ p_public_only p = true /\ p_kid_is_thumbprint p = true /\ p_alg p = Some AEdDSA /\ p_key p = pub sec
  /\ (forall id', lookup (ks_store s') id' = if id' =? id then Some {| j_kind := JOkpEd25519; j_private := true; j_alg := Some AEdDSA; j_secret := sec; j_d_ok := true |} else lookup (ks_store s) id').
Proof. exact generate_output. Qed.
Print Assumptions C15_generate_output.

Theorem C15_ids_fresh_along_every_history : forall ops, ids_below (krun ops ks_init).
Proof. exact ids_fresh. Qed.
Print Assumptions C15_ids_fresh_along_every_history.

Theorem C15_insert_requires_private :
  forall s j s' id, kstep s (OInsert j) = (s', RId id) -> j_kind j = JOkpEd25519 /\ j_private j = true /\ j_alg j = Some AEdDSA /\ id = ks_next s.
Proof. exact insert_requires. Qed.
Print Assumptions C15_insert_requires_private.

Theorem C15_sign_verifies_own_only :
  forall s id p s' sec, kstep s (OSign id p) = (s', RSig sec) ->
  s' = s /\ exists j, lookup (ks_store s) id = Some j /\ j_secret j = sec /\ (forall pk, verifies pk sec = true <-> pk = pub (j_secret j)).
Proof. exact sign_own_only. Qed.
Print Assumptions C15_sign_verifies_own_only.

Theorem C15_absent_id_inert :
  forall s id, lookup (ks_store s) id = None ->
  (forall p, exists e, kstep s (OSign id p) = (s, RErr e)) /\ kstep s (OExists id) = (s, RBool false) /\ kstep s (ODelete id) = (s, RErr EKeyNotFound).
Proof. exact absent_id_inert. Qed.
Print Assumptions C15_absent_id_inert.

Theorem C15_never_issued_absent : forall ops id, ks_next (krun ops ks_init) <= id -> lookup (ks_store (krun ops ks_init)) id = None.
Proof. exact never_issued_absent. Qed.
Print Assumptions C15_never_issued_absent.

Theorem C15_deleted_absent :
  forall s id s', kstep s (ODelete id) = (s', RUnit) -> lookup (ks_store s') id = None /\ forall id', id' <> id -> lookup (ks_store s') id' = lookup (ks_store s) id'.
Proof. exact deleted_absent. Qed.
Print Assumptions C15_deleted_absent.

Theorem C15_failed_op_no_effect : forall s o e, snd (kstep s o) = RErr e -> fst (kstep s o) = s.
Proof. exact failed_op_no_effect. Qed.
Print Assumptions C15_failed_op_no_effect.

Theorem C15_keyid_at_most_one : forall s d kid kid', id_get s d = Some kid -> idstep s (IInsert d kid') = (s, IExists).
Proof. exact keyid_at_most_one. Qed.
Print Assumptions C15_keyid_at_most_one.

Theorem C15_keyid_insert_get :
  forall s d kid s', idstep s (IInsert d kid) = (s', IOk) -> id_get s d = None /\ id_get s' d = Some kid /\ forall d', d' <> d -> id_get s' d' = id_get s d'.
Proof. exact keyid_insert_get. Qed.
Print Assumptions C15_keyid_insert_get.

(* every interleaving of n threads, each doing  acquire; contains_key; insert; release  on one digest *)
Theorem C15_race_one_winner :
  forall schedule (threads : list Z), threads <> [] ->
  (forall t, In t threads -> exists ok, r_pc (rrun schedule) t = Done ok) ->
  (forall t, ~ In t threads -> r_pc (rrun schedule) t = Start) ->
  exists w, In w threads /\ r_store (rrun schedule) = Some w /\ r_pc (rrun schedule) w = Done true
            /\ forall t, r_pc (rrun schedule) t = Done true -> t = w.
Proof. exact race_one_winner. Qed.
Print Assumptions C15_race_one_winner.

Theorem C15_race_unlocked_refuted :
  let r := fold_left rstep_unlocked [1; 2; 1; 2] race_init in r_pc r 1 = Done true /\ r_pc r 2 = Done true.
Proof. exact race_unlocked_refuted. Qed.
Print Assumptions C15_race_unlocked_refuted.

(* the Stronghold-backed store (identity_stronghold): it refines the same contract - whatever it completes, the contract completes with the same result
   and state, whatever it refuses leaves the store as it was (it refuses more: a private member that is not a 32-byte key, already at insertion) *)
Theorem C15_stronghold_refines_contract : forall s o s' r, kstep_sh s o = (s', r) ->
  (is_err r = false -> kstep s o = (s', r)) /\ (is_err r = true -> s' = s).
Proof. exact kstep_sh_refines. Qed.
Print Assumptions C15_stronghold_refines_contract.
