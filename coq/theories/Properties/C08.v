(* Property C08 — every JWS the library produces decodes and verifies to what was signed.
   Pinned statements, for EVERY header serialisation oracle with parse (ser h) = Some h. *)
From Coq Require Import List NArith ZArith Bool.
From IdV Require Import Lib.Outcome Lib.Base64 Proofs.Base64Proofs Jose.Header Jose.Policy Proofs.PolicyProofs Jose.Jws Proofs.JwsProofs Doc.Doc Cred.Validate Cred.PresValidate Proofs.PresValidateProofs Cred.Claims Proofs.JwtEndToEndProofs.
Import ListNotations.
Open Scope N_scope.

(* strict unpadded base64url: round trip, canonical form, character set *)
Theorem C08_base64_decode_encode : forall bs, Forall (fun b => b < 256) bs -> b64u_decode (b64u_encode bs) = Some bs.
Proof. exact b64u_decode_encode. Qed.
Theorem C08_base64_canonical : forall s bs, b64u_decode s = Some bs -> b64u_encode bs = s /\ Forall (fun b => b < 256) bs.
Proof. exact b64u_encode_decode. Qed.
Theorem C08_base64_charset : forall bs, Forall (fun b => b < 256) bs -> forallb is_b64u_char (b64u_encode bs) = true.
Proof. exact b64u_encode_charset. Qed.

Section C08.
  Variable H : Type.
  Variable hview : H -> hdr.
  Variable parse_header : list N -> option H.
  Variable ser_header : H -> list N.
  Variable utf8 : list N -> bool.
  (* serde round trip of header values (false for headers whose custom map repeats a registered
     name: known-finding class K_custom_registered) *)
  Hypothesis parse_ser : forall h, parse_header (ser_header h) = Some h.
  Hypothesis ser_bytes : forall h, Forall (fun b => b < 256) (ser_header h).

  Theorem C08_compact_roundtrip : forall payload h nd e sg,
    Forall (fun b => b < 256) payload -> Forall (fun b => b < 256) sg -> payload <> [] ->
    enc_compact_new H hview ser_header payload h nd = Ok e ->
    let tok := compact_into_jws e sg in
    let det := match nd with None => Some (encode_if_b64 H hview payload (Some h)) | Some _ => None end in
    exists it, decode_compact H hview parse_header tok det = Ok it
      /\ it_protected H it = Some h /\ it_unprotected H it = None
      /\ it_si H it = ce_si e /\ it_sig H it = sg /\ it_claims H it = payload.
  Proof. exact (compact_roundtrip H hview parse_header ser_header parse_ser ser_bytes). Qed.

  Theorem C08_flattened_roundtrip : forall payload p u detached e sg,
    Forall (fun b => b < 256) payload -> Forall (fun b => b < 256) sg -> payload <> [] ->
    enc_flattened_new H hview ser_header utf8 payload p u detached = Ok e ->
    let det := if detached then Some (encode_if_b64 H hview payload p) else None in
    exists it, decode_envelope H hview parse_header (json_envelope H e sg) det = Ok it
      /\ it_protected H it = p /\ it_unprotected H it = u
      /\ it_si H it = je_si H e /\ it_sig H it = sg /\ it_claims H it = payload.
  Proof. exact (flattened_roundtrip H hview parse_header ser_header utf8 parse_ser ser_bytes). Qed.

  (* general serialisation, ANY number of recipients: the encoder succeeds only when every recipient's headers pass the policy and
     agree with the first on b64; then EVERY recipient's entry (with the shared payload member) decodes to that recipient's headers,
     the shared payload, its signature, and the signing input  BASE64URL(protected_k) '.' payload-as-encoded-for-the-first *)
  Theorem C08_general_roundtrip : forall payload rs detached top envs,
    Forall (fun b => b < 256) payload -> payload <> [] ->
    enc_general H hview ser_header utf8 payload rs detached = Ok (top, envs) ->
    exists p0 u0 s0 rest, rs = (p0, u0, s0) :: rest /\ length envs = length rs
      /\ top = (if detached then None else Some (encode_if_b64 H hview payload p0))
      /\ forall k p u sg, nth_error rs k = Some (p, u, sg) -> Forall (fun b => b < 256) sg ->
         exists env, nth_error envs k = Some env /\ e_payload H env = None /\
           let env' := {| e_payload := top; e_protected := e_protected H env; e_header := e_header H env; e_signature := e_signature H env |} in
           let det := if detached then Some (encode_if_b64 H hview payload p0) else None in
           exists it, decode_envelope H hview parse_header env' det = Ok it
             /\ it_protected H it = p /\ it_unprotected H it = u
             /\ it_si H it = general_si H hview ser_header payload p0 p /\ it_sig H it = sg /\ it_claims H it = payload.
  Proof. exact (general_roundtrip H hview parse_header ser_header utf8 parse_ser ser_bytes). Qed.
  (* the storage-backed signing call (JwkDocumentExt::create_jws) with ANY signature options: the header it assembles is accepted by the
     compact encoder; the one refusal left is the character-set test on an attached unencoded payload; the token decodes to that header,
     the payload and the signing input that was signed *)
  Theorem C08_create_jws_roundtrip : forall o h payload sg,
    hview h = create_jws_header o -> Forall (fun b => b < 256) payload -> Forall (fun b => b < 256) sg -> payload <> [] ->
    let nd := if so_detached o then None else Some 0 in
    (so_detached o = false -> so_b64 o = Some false -> charset_ok 0 payload = true) ->
    exists e, enc_compact_new H hview ser_header payload h nd = Ok e /\
      let tok := compact_into_jws e sg in
      let det := match nd with None => Some (encode_if_b64 H hview payload (Some h)) | Some _ => None end in
      exists it, decode_compact H hview parse_header tok det = Ok it
        /\ it_protected H it = Some h /\ it_unprotected H it = None
        /\ it_si H it = ce_si e /\ it_sig H it = sg /\ it_claims H it = payload.
  Proof. exact (create_jws_roundtrip H hview parse_header ser_header parse_ser ser_bytes). Qed.
End C08.
(* for EVERY combination of signature options the assembled header passes the encoder's header policy *)
Theorem C08_create_jws_header_valid : forall o, enc_compact (create_jws_header o) = true.
Proof. exact create_jws_header_valid. Qed.
Print Assumptions C08_create_jws_header_valid.

(* CoreDocument::verify_jws (the model shared with C03): a token whose signature is valid under exactly one key km - the key of the method it was
   produced for - verifies only when the nonce is the configured one and the kid / configured method id resolves, IN THE CONFIGURED SCOPE, to a
   method carrying km.  Hence never under another method's key, a different nonce, or a scope that excludes the method. *)
Theorem C08_verify_binds_method_nonce_scope : forall t h o km, (forall k, pt_sig_ok t k = true -> k = km) -> verify_jws t h o = inl tt ->
  oz_eqb (pt_nonce t) (po_nonce o) = true
  /\ exists q m, (match po_method_id o with Some u => Some (query_of_url u) | None => pt_kid t end) = Some q
       /\ resolve_method (h_doc h) q (po_scope o) = Some m /\ is_jwk (m_data m) = true /\ m_data m = km.
Proof. exact verify_jws_binds. Qed.
Theorem C08_other_nonce_fails : forall t h o, oz_eqb (pt_nonce t) (po_nonce o) = false -> verify_jws t h o = inr PVNonce.
Proof. exact verify_jws_other_nonce. Qed.
Theorem C08_scope_excluding_fails : forall t h o q, oz_eqb (pt_nonce t) (po_nonce o) = true ->
  (match po_method_id o with Some u => Some (query_of_url u) | None => pt_kid t end) = Some q ->
  resolve_method (h_doc h) q (po_scope o) = None -> verify_jws t h o = inr PVMethodNotFound.
Proof. exact verify_jws_scope_excludes. Qed.
Theorem C08_other_method_key_fails : forall t h o q m km, (forall k, pt_sig_ok t k = true -> k = km) -> oz_eqb (pt_nonce t) (po_nonce o) = true ->
  (match po_method_id o with Some u => Some (query_of_url u) | None => pt_kid t end) = Some q ->
  resolve_method (h_doc h) q (po_scope o) = Some m -> m_data m <> km -> verify_jws t h o <> inl tt.
Proof. exact verify_jws_other_key. Qed.

Print Assumptions C08_base64_decode_encode.
Print Assumptions C08_base64_canonical.
Print Assumptions C08_base64_charset.
Print Assumptions C08_compact_roundtrip.
Print Assumptions C08_flattened_roundtrip.
Print Assumptions C08_general_roundtrip.
Print Assumptions C08_create_jws_roundtrip.
Print Assumptions C08_verify_binds_method_nonce_scope.
Print Assumptions C08_other_nonce_fails.
Print Assumptions C08_scope_excluding_fails.
Print Assumptions C08_other_method_key_fails.

(* JwkDocumentExt::create_credential_jwt / create_presentation_jwt end to end: the claims text written by serialize_jwt (C07's conversion), signed
   through create_jws with ANY signature options that keep the payload attached and encoded, comes back from the library's decoder as a text that
   reads to the same credential / presentation and the same custom claims.  js/jp (pjs/pjp): JSON writer and reader, assumed to agree with the
   structured serde model of C07 (reparse / preparse). *)
Section C08_jwt.
  Variable H : Type.
  Variable hview : H -> hdr.
  Variable parse_header : list N -> option H.
  Variable ser_header : H -> list N.
  Hypothesis parse_ser : forall h, parse_header (ser_header h) = Some h.
  Hypothesis ser_bytes : forall h, Forall (fun b => b < 256) (ser_header h).
  Variable js : claims -> custom -> list N.
  Variable jp : list N -> option (claims * custom).
  Hypothesis jp_js : forall k cu, jp (js k cu) = reparse k cu.
  Hypothesis js_bytes : forall k cu, Forall (fun b => b < 256) (js k cu) /\ js k cu <> [].
  Variable pjs : pclaims -> custom -> list N.
  Variable pjp : list N -> option (pclaims * custom).
  Hypothesis pjp_pjs : forall k cu, pjp (pjs k cu) = preparse k cu.
  Hypothesis pjs_bytes : forall k cu, Forall (fun b => b < 256) (pjs k cu) /\ pjs k cu <> [].
  Theorem C08_credential_jwt_roundtrip : forall c cu o h sg,
    cred_wf c = true -> custom_ok cu = true ->
    hview h = create_jws_header o -> jwt_opts_ok o = true -> Forall (fun b => b < 256) sg ->
    exists e, enc_compact_new H hview ser_header (js (to_claims c) cu) h (Some 0) = Ok e /\
      exists it, decode_compact H hview parse_header (compact_into_jws e sg) None = Ok it
        /\ it_protected H it = Some h /\ it_sig H it = sg /\ it_si H it = ce_si e
        /\ exists k, jp (it_claims H it) = Some (k, cu) /\ from_claims k = ROk c.
  Proof. exact (credential_jwt_roundtrip H hview parse_header ser_header parse_ser ser_bytes js jp jp_js js_bytes). Qed.
  Theorem C08_presentation_jwt_roundtrip : forall p po cu o h sg,
    popts_wf po = true -> pcustom_ok cu = true ->
    hview h = create_jws_header o -> jwt_opts_ok o = true -> Forall (fun b => b < 256) sg ->
    exists e, enc_compact_new H hview ser_header (pjs (to_pclaims p po) cu) h (Some 0) = Ok e /\
      exists it, decode_compact H hview parse_header (compact_into_jws e sg) None = Ok it
        /\ it_protected H it = Some h /\ it_sig H it = sg /\ it_si H it = ce_si e
        /\ exists k, pjp (it_claims H it) = Some (k, cu)
             /\ from_pclaims k = ROk {| d_pres := p; d_expires := o_expires po; d_issued := o_issued po; d_aud := o_aud po |}.
  Proof. exact (presentation_jwt_roundtrip H hview parse_header ser_header parse_ser ser_bytes pjs pjp pjp_pjs pjs_bytes). Qed.
End C08_jwt.
Print Assumptions C08_credential_jwt_roundtrip.
Print Assumptions C08_presentation_jwt_roundtrip.
