(* Property C17 — IOTA DIDs are normalised, decomposable, equal iff network and tag agree. *)
From Coq Require Import List NArith Bool.
From IdV Require Import Lib.Outcome Did.DidParse Did.IotaDid Proofs.DidProofs Proofs.IotaDidProofs Proofs.DidTotalProofs.
Import ListNotations.
Open Scope N_scope.

(* every accepted IOTA DID: tag = "0x" + 64 hex digits, network = 1..6 of a-z0-9, default network
   never spelled out, value = tag or network ":" tag, and it is the normal form of a plain DID with
   method "iota" (so, by C10, no path / query / fragment) *)
Theorem C17_shape : forall s v, iota_parse s = Ok v ->
  tag_ok (iota_tag v) = true /\ net_ok (iota_network v) = true /\ iota_normal v
  /\ (v = iota_tag v \/ v = iota_network v ++ 58 :: iota_tag v)
  /\ exists i, core_did_parse (to_lower s) = Ok (IOTA, i) /\ v = iota_normalize i.
Proof. exact iota_parse_shape. Qed.
(* equality of values in normal form = equality of (network, tag) *)
Theorem C17_eq_iff : forall a b, iota_normal a -> iota_normal b ->
  (a = b <-> (iota_network a = iota_network b /\ iota_tag a = iota_tag b)).
Proof. exact iota_eq_iff. Qed.
(* accessors recompose: splitting at the first ':' inverts network ":" tag *)
Theorem C17_accessors_recompose : forall n t, existsb (N.eqb 58) n = false ->
  denorm (n ++ 58 :: t) = (n, t).
Proof. exact (fun n t H => f_equal (fun o => match o with Some (a, b) => (a, b) | None => (IOTA, n ++ 58 :: t) end) (split_colon_app n t H)). Qed.

(* every accepted IOTA DID re-parses from its string form ("did:iota:" ++ value) to the SAME value *)
Theorem C17_reparse : forall s v, iota_parse s = Ok v -> iota_parse (iota_to_string v) = Ok v.
Proof. exact iota_reparse. Qed.
(* IotaDID::new(32 tag bytes, network): for the lower-case hex th of ANY 32 bytes and ANY valid network name n the
   constructor succeeds (its expect() cannot fire), exposes exactly "0x" ++ th and n, and elides the default network *)
Theorem C17_new_spec : forall th n, length th = 64%nat -> forallb is_lower_hexdig th = true -> net_ok n = true ->
  exists v, iota_new th n = Ok v /\ iota_tag v = 48 :: 120 :: th /\ iota_network v = n /\ iota_normal v
            /\ (n = IOTA -> v = 48 :: 120 :: th) /\ (n <> IOTA -> v = n ++ 58 :: 48 :: 120 :: th).
Proof. exact iota_new_spec. Qed.
(* lower-casing: the value never holds an upper-case ASCII letter *)
Theorem C17_lowercase : forall s, forallb not_upper (to_lower s) = true.
Proof. exact to_lower_not_upper. Qed.

(* the other construction routes (try_from_core, TryFrom<CoreDID>, TryFrom<BaseDIDUrl>, serde): whatever they accept has the same shape,
   is held in lower case, and IotaDID::parse of the same string gives the SAME value *)
Theorem C17_from_core_shape : forall m i v, iota_from_core (m, i) = Ok v ->
  m = IOTA /\ tag_ok (iota_tag v) = true /\ net_ok (iota_network v) = true /\ iota_normal v
  /\ (v = iota_tag v \/ v = iota_network v ++ 58 :: iota_tag v) /\ forallb not_upper v = true
  /\ v = iota_normalize (map ascii_lower i).
Proof. exact iota_from_core_shape. Qed.
Theorem C17_routes_agree : forall s v, iota_try_from_core s = Ok v -> iota_parse s = Ok v.
Proof. exact iota_try_from_core_agrees. Qed.
(* the tree before fix e8fe5c5 kept an upper-case tag: not in normal form and unequal to the parsed value *)
Theorem C17_from_core_pinned_refuted : exists s v, obind (core_did_parse s) iota_from_core_pinned = Ok v /\ forallb not_upper v = false
  /\ exists w, iota_parse s = Ok w /\ w <> v.
Proof. exact iota_from_core_pinned_refuted. Qed.
(* the id of a deserialised IotaDocument: the string itself is the normal form, and parse gives the same value *)
Theorem C17_document_id_spec : forall s v, iota_doc_id s = Ok v -> iota_parse s = Ok v /\ s = iota_to_string v.
Proof. exact iota_doc_id_spec. Qed.
(* the tree before fix 501fee3 accepted "did:iota:iota:0x.." as a document id *)
Theorem C17_document_id_pinned_refuted : exists s v, iota_doc_id_pinned s = Ok v /\ ~ iota_normal v.
Proof. exact iota_doc_id_pinned_refuted. Qed.
(* IotaDID::parse is total *)
Theorem C17_parse_total : forall s, iota_parse s <> Panic.
Proof. exact iota_parse_total. Qed.

Print Assumptions C17_shape.
Print Assumptions C17_eq_iff.
Print Assumptions C17_accessors_recompose.
Print Assumptions C17_reparse.
Print Assumptions C17_new_spec.
Print Assumptions C17_lowercase.
Print Assumptions C17_from_core_shape.
Print Assumptions C17_routes_agree.
Print Assumptions C17_from_core_pinned_refuted.
Print Assumptions C17_document_id_spec.
Print Assumptions C17_document_id_pinned_refuted.
Print Assumptions C17_parse_total.
