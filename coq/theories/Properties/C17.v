(* Property C17 — IOTA DIDs are normalised, decomposable, equal iff network and tag agree. *)
From Coq Require Import List NArith Bool.
From IdV Require Import Lib.Outcome Did.DidParse Did.IotaDid Proofs.DidProofs Proofs.IotaDidProofs.
Import ListNotations.
Open Scope N_scope.

(* every accepted IOTA DID: tag = "0x" + 64 hex digits, network = 1..6 of a-z0-9, default network
   never spelled out, value = tag or network ":" tag, and it is the normal form of a plain DID with
   method "iota" (so, by C10, no path / query / fragment) *)
Theorem C17_shape : forall s v, iota_parse s = Ok v ->
  tag_ok (iota_tag v) = true /\ net_ok (iota_network v) = true /\ iota_normal v
  /\ (v = iota_tag v \/ v = iota_network v ++ 58 :: iota_tag v)
  /\ exists i, core_did_parse (map ascii_lower s) = Ok (IOTA, i) /\ v = iota_normalize i.
Proof. exact iota_parse_shape. Qed.
(* equality of values in normal form = equality of (network, tag) *)
Theorem C17_eq_iff : forall a b, iota_normal a -> iota_normal b ->
  (a = b <-> (iota_network a = iota_network b /\ iota_tag a = iota_tag b)).
Proof. exact iota_eq_iff. Qed.
(* accessors recompose: splitting at the first ':' inverts network ":" tag *)
Theorem C17_accessors_recompose : forall n t, existsb (N.eqb 58) n = false ->
  denorm (n ++ 58 :: t) = (n, t).
Proof. exact (fun n t H => f_equal (fun o => match o with Some (a, b) => (a, b) | None => (IOTA, n ++ 58 :: t) end) (split_colon_app n t H)). Qed.

Print Assumptions C17_shape.
Print Assumptions C17_eq_iff.
Print Assumptions C17_accessors_recompose.
