(* C03 — JWT presentation validation binds the token to the holder document. Statements only. *)
From Coq Require Import List ZArith Bool.
From IdV Require Import Doc.Doc Core.Timestamp Cred.Claims Cred.Validate Cred.PresValidate Proofs.PresValidateProofs.
Import ListNotations.
Open Scope Z_scope.

Theorem C03_accept_iff : forall t h o d, validate_pres t h o = inl d <-> pres_accept t h o d.
Proof. exact validate_pres_accept_iff. Qed.
Print Assumptions C03_accept_iff.

Theorem C03_verify_jws_iff : forall t h o, verify_jws t h o = inl tt <-> jws_ok t h o.
Proof. exact verify_jws_ok. Qed.
Print Assumptions C03_verify_jws_iff.

(* what an accepted presentation guarantees, in the words of the statement *)
Theorem C03_accept_sound :
  forall t h o d, validate_pres t h o = inl d ->
  jws_ok t h o /\ pt_iss_did t = Some (h_id h)
  /\ exists k, pt_claims t = Some k
     /\ p_holder (d_pres d) = pk_iss k /\ p_id (d_pres d) = pk_jti k /\ d_expires d = pk_exp k /\ d_aud d = pk_aud k
     /\ (forall v, pi_id (pk_vp k) = Some v -> pk_jti k = Some v) /\ (forall v, pi_holder (pk_vp k) = Some v -> pk_iss k = v)
     /\ (forall e, d_expires d = Some e -> ts_gate e = true /\ po_earliest_expiry o <= e)
     /\ (forall i, d_issued d = Some i -> ts_gate i = true /\ to_issuance_date (pk_iat k) (pk_nbf k) = ROk i /\ i <= po_latest_issuance o).
Proof. exact validate_pres_sound. Qed.
Print Assumptions C03_accept_sound.

(* the rejection side: the nonce is compared first and a mismatch is reported as such; an error of
   verify_jws is the error of the validator; a token whose iss is not the holder document's DID, whose
   signature verifies under no key, or whose holder document offers no method in scope is accepted
   for NO decoded value - for every token, holder and option set *)
Theorem C03_nonce_mismatch_first : forall t h o, pt_nonce t <> po_nonce o -> validate_pres t h o = inr PVNonce.
Proof. exact pres_nonce_mismatch_first. Qed.
Print Assumptions C03_nonce_mismatch_first.
Theorem C03_jws_error_propagates : forall t h o e, verify_jws t h o = inr e -> validate_pres t h o = inr e.
Proof. exact pres_jws_error_propagates. Qed.
Print Assumptions C03_jws_error_propagates.
Theorem C03_foreign_holder_never_accepted : forall t h o d, pt_iss_did t <> Some (h_id h) -> validate_pres t h o <> inl d.
Proof. exact pres_foreign_holder_never_accepted. Qed.
Print Assumptions C03_foreign_holder_never_accepted.
Theorem C03_bad_signature_never_accepted : forall t h o d,
  (forall key, pt_sig_ok t key = false) -> validate_pres t h o <> inl d.
Proof. exact pres_bad_signature_never_accepted. Qed.
Print Assumptions C03_bad_signature_never_accepted.
Theorem C03_no_method_never_accepted : forall t h o d,
  (forall q, resolve_method (h_doc h) q (po_scope o) = None) -> validate_pres t h o <> inl d.
Proof. exact pres_no_method_never_accepted. Qed.
Print Assumptions C03_no_method_never_accepted.
