(* C03 — JWT presentation validation binds the token to the holder document. Statements only. *)
From Coq Require Import List ZArith Bool.
From IdV Require Import Doc.Doc Core.Timestamp Cred.Claims Cred.Validate Cred.PresValidate Proofs.PresValidateProofs.
Import ListNotations.
Open Scope Z_scope.

Theorem C03_accept_iff : forall t h o d, validate_pres t h o = inl d <-> pres_accept t h o d.
Proof. exact validate_pres_accept_iff. Qed.
Print Assumptions C03_accept_iff.

Theorem C03_verify_jws_iff : forall t h o, verify_jws t h o = inl tt <-> jws_ok t h o.
Proof. exact verify_jws_ok. Qed.
Print Assumptions C03_verify_jws_iff.

(* what an accepted presentation guarantees, in the words of the statement *)
Theorem C03_accept_sound :
  forall t h o d, validate_pres t h o = inl d ->
  jws_ok t h o /\ pt_iss_did t = Some (h_id h)
  /\ exists k, pt_claims t = Some k
     /\ p_holder (d_pres d) = pk_iss k /\ p_id (d_pres d) = pk_jti k /\ d_expires d = pk_exp k /\ d_aud d = pk_aud k
     /\ (forall v, pi_id (pk_vp k) = Some v -> pk_jti k = Some v) /\ (forall v, pi_holder (pk_vp k) = Some v -> pk_iss k = v)
     /\ (forall e, d_expires d = Some e -> ts_gate e = true /\ po_earliest_expiry o <= e)
     /\ (forall i, d_issued d = Some i -> ts_gate i = true /\ to_issuance_date (pk_iat k) (pk_nbf k) = ROk i /\ i <= po_latest_issuance o).
Proof. exact validate_pres_sound. Qed.
Print Assumptions C03_accept_sound.
