(* Property C18 — JWK public projection, thumbprint and key-type coherence never leak keys.
   Pinned statements only. *)
From Coq Require Import List ZArith NArith Bool.
From IdV Require Import Lib.Sha256 Jose.Jwk Proofs.JwkProofs Jose.Thumbprint Proofs.ThumbprintProofs.
Import ListNotations.
Open Scope Z_scope.

Theorem C18_public_no_private : forall k p, jwk_to_public k = Some p ->
  private_members (j_params p) = [] /\ jwk_is_public p = true.
Proof. exact to_public_no_private. Qed.
Theorem C18_public_keeps_public_part : forall k p, jwk_to_public k = Some p ->
  public_members (j_params p) = public_members (j_params k) /\ j_kty p = params_kty (j_params k)
  /\ j_use p = j_use k /\ j_alg p = j_alg k /\ j_kid p = j_kid k.
Proof. exact to_public_keeps_public_part. Qed.
Theorem C18_public_none_iff_oct : forall k, jwk_to_public k = None <-> params_kty (j_params k) = KOct.
Proof. exact to_public_none_iff_oct. Qed.
Theorem C18_public_idempotent : forall k p, jwk_to_public k = Some p -> jwk_to_public p = Some p.
Proof. exact to_public_idempotent. Qed.
(* every key type, every subset of private members (partial RSA sets and oth included) *)
Theorem C18_is_public_iff : forall k, jwk_is_public k = true <-> private_members (j_params k) = [].
Proof. exact (fun k => is_public_iff (j_params k)). Qed.
(* thumbprint input: determined by kty and the required public members alone *)
Theorem C18_thumbprint_required_only : forall k k',
  j_kty k = j_kty k' -> params_kty (j_params k) = params_kty (j_params k') ->
  public_members (j_params k) = public_members (j_params k') ->
  params_kty (j_params k) <> KOct ->
  jwk_thumbprint_input k = jwk_thumbprint_input k'.
Proof. exact thumbprint_required_only. Qed.
Theorem C18_thumbprint_public_same : forall k p, jwk_coherent k = true -> jwk_to_public k = Some p ->
  jwk_thumbprint_input p = jwk_thumbprint_input k.
Proof. exact thumbprint_public_same. Qed.
(* declared type = parameter family, however the key was obtained *)
Theorem C18_kty_coherent_constructors : forall t p k,
  jwk_coherent (jwk_new t) = true /\ jwk_coherent (jwk_from_params p) = true
  /\ jwk_coherent (jwk_set_kty k t) = true
  /\ (forall k', jwk_set_params k p = Some k' -> jwk_coherent k' = true)
  /\ (forall q, jwk_to_public k = Some q -> jwk_coherent q = true).
Proof.
  exact (fun t p k => conj (coherent_new t) (conj (coherent_from_params p) (conj (coherent_set_kty k t)
          (conj (coherent_set_params k p) (coherent_to_public k))))).
Qed.
(* known finding K_params_mut: `*jwk.params_mut() = p` (whole-value assignment through the mutable accessor) is the one route that
   can break the agreement; assigning a value of the declared family keeps it *)
Theorem C18_params_mut_assign_refuted : exists k p, jwk_coherent k = true /\ jwk_coherent (jwk_params_mut_assign k p) = false.
Proof. exact params_mut_assign_refuted. Qed.
Theorem C18_params_mut_same_family : forall k p, j_kty k = params_kty p -> jwk_coherent (jwk_params_mut_assign k p) = true.
Proof. exact params_mut_assign_same_family. Qed.
Theorem C18_set_params_refused_iff_mismatch : forall k p, jwk_set_params k p = None <-> j_kty k <> params_kty p.
Proof. exact set_params_refused_unchanged. Qed.
Theorem C18_kty_coherent_deserialised : forall t ops m k, jwk_deser t ops m = Some k -> jwk_coherent k = true.
Proof. exact coherent_deser. Qed.
Theorem C18_methods_public_only : forall k m, method_from_jwk k = Some m -> m = k /\ private_members (j_params m) = [].
Proof. exact methods_public_only. Qed.
(* the two pinned-tree behaviours repaired by fix: commits, kept as refutations *)
Theorem C18_pinned_to_public_refuted : exists k p q,
  jwk_to_public_pinned k = Some p /\ jwk_to_public_pinned p = Some q /\ p <> q.
Proof. exact to_public_pinned_refuted. Qed.
Theorem C18_pinned_deser_refuted : exists t ops m k, jwk_deser_pinned t ops m = Some k /\ jwk_coherent k = false.
Proof. exact deser_pinned_refuted. Qed.

Print Assumptions C18_public_no_private.
Print Assumptions C18_public_keeps_public_part.
Print Assumptions C18_public_none_iff_oct.
Print Assumptions C18_public_idempotent.
Print Assumptions C18_is_public_iff.
Print Assumptions C18_thumbprint_required_only.
Print Assumptions C18_thumbprint_public_same.
Print Assumptions C18_kty_coherent_constructors.
Print Assumptions C18_set_params_refused_iff_mismatch.
Print Assumptions C18_kty_coherent_deserialised.
Print Assumptions C18_methods_public_only.
Print Assumptions C18_pinned_to_public_refuted.
Print Assumptions C18_pinned_deser_refuted.
Print Assumptions C18_params_mut_assign_refuted.
Print Assumptions C18_params_mut_same_family.

(* a key obtained by conversion from the JSON-proof-token key type is coherent whatever that key declared *)
Theorem C18_from_foreign_coherent : forall f k, jwk_from_foreign false f = CvOk k ->
  j_kty k = params_kty (j_params k) /\ (exists c x y d, f_params f = FEc c x y d /\ j_params k = PEc c x y d) /\ j_kid k = f_kid f.
Proof. exact from_foreign_coherent. Qed.
Print Assumptions C18_from_foreign_coherent.
Theorem C18_from_foreign_total : forall f, jwk_from_foreign false f <> CvPanic.
Proof. exact from_foreign_total. Qed.
Print Assumptions C18_from_foreign_total.
(* the pinned tree: unreachable!() on an octet-key-pair key (repaired; KNOWN_FINDINGS fixed: C05 / C18) *)
Theorem C18_from_foreign_pinned_panics : exists f, jwk_from_foreign true f = CvPanic.
Proof. exact from_foreign_pinned_panics. Qed.
Print Assumptions C18_from_foreign_pinned_panics.

(* byte level (Jose/Thumbprint.v, Lib/Sha256.v: SHA-256 itself is modelled and compared with the implementation's output on every case):
   the thumbprint text, and with it the 32-byte digest and its base64url form, depend on nothing but the declared key type, the parameter
   family and the VALUES of the required members - for every lookup function, i.e. whatever else the key carries and in whatever order *)
Theorem C18_thumbprint_bytes_required_only : forall kty family (get get' : list N -> list N),
  (forall n, In n (thumb_names family) -> n <> n_kty -> get n = get' n) ->
  thumb_text kty family get = thumb_text kty family get' /\ thumbprint_b64 kty family get = thumbprint_b64 kty family get'.
Proof. exact (fun kty family get get' H => conj (thumb_text_required_only kty family get get' H) (thumbprint_required_only_bytes kty family get get' H)). Qed.
Theorem C18_sha256_is_32_bytes : forall msg, length (sha256 msg) = 32%nat /\ Forall (fun b => (b < 256)%N) (sha256 msg).
Proof. exact (fun msg => conj (sha256_length msg) (sha256_bytes msg)). Qed.
Print Assumptions C18_thumbprint_bytes_required_only.
Print Assumptions C18_sha256_is_32_bytes.
