(* Property C19 — ordered-set collections keep order and key-uniqueness over all op sequences.
   This file contains only the pinned statements; every proof is `exact <lemma>`. *)
From Coq Require Import List Bool.
From IdV Require Import Core.OrdSet Core.OneOr Proofs.OrdSetProofs.
Import ListNotations.

Section C19.
  Variables (T K : Type) (key : T -> K) (keqb : K -> K -> bool).
  (* Assumption of the property: key equality is a decidable equivalence. *)
  Hypothesis keqb_spec : forall a b, reflect (a = b) (keqb a b).

  (* Every operation of the Rust-shaped implementation model returns the flag and the list
     of the abstract duplicate-free-list model — for every list, not only reachable ones. *)
  Theorem C19_refines : forall l o, os_step T K key keqb l o = spec_step T K key keqb l o.
  Proof. exact (step_refines T K key keqb). Qed.

  (* Key uniqueness is an invariant of every operation sequence. *)
  Theorem C19_inv : forall ops l,
    NoDup (map key l) -> NoDup (map key (os_run T K key keqb ops l)).
  Proof. exact (run_inv T K key keqb keqb_spec). Qed.

  (* Order: elements not touched by replace/update keep their relative order; the new
     element takes the place of the first matched one; no match = unchanged + false. *)
  Theorem C19_order_kept_survivors : forall l d f, f d = true ->
    filter (fun y => negb (f y)) (fst (spec_change T l d f)) = filter (fun y => negb (f y)) l.
  Proof. exact (schange_survivors T). Qed.
  Theorem C19_order_kept_in_place : forall l d f pre x post,
    l = pre ++ x :: post -> forallb (fun y => negb (f y)) pre = true -> f x = true ->
    spec_change T l d f = (pre ++ d :: filter (fun y => negb (f y)) post, true).
  Proof. exact (schange_in_place T). Qed.
  Theorem C19_no_match_unchanged : forall l d f,
    forallb (fun y => negb (f y)) l = true -> spec_change T l d f = (l, false).
  Proof. exact (schange_none T). Qed.
  Theorem C19_remove_first : forall l k l' x, os_remove T K key keqb l k = (l', Some x) ->
    exists pre post, l = pre ++ x :: post /\ l' = pre ++ post /\ key x = k /\ ~ In k (map key pre).
  Proof. exact (remove_spec_some T K key keqb keqb_spec). Qed.
  Theorem C19_remove_absent : forall l k l', os_remove T K key keqb l k = (l', None) ->
    l' = l /\ ~ In k (map key l).
  Proof. exact (remove_spec_none T K key keqb keqb_spec). Qed.

  (* Constructors. *)
  Theorem C19_from_vec_rejects_dups : forall l r,
    os_try_from_vec T K key keqb l = Some r <-> (NoDup (map key l) /\ r = l).
  Proof. exact (try_from_vec_iff T K key keqb keqb_spec). Qed.
  Theorem C19_collect_keeps_first : forall l,
    os_from_iter T K key keqb l = spec_dedup T K key keqb l.
  Proof. exact (from_iter_is_dedup T K key keqb keqb_spec). Qed.
  Theorem C19_collect_unique : forall l, NoDup (map key (os_from_iter T K key keqb l)).
  Proof. exact (from_iter_inv T K key keqb keqb_spec). Qed.
  Theorem C19_collect_same_keys : forall l k,
    In k (map key (os_from_iter T K key keqb l)) <-> In k (map key l).
  Proof. exact (from_iter_keys T K key keqb keqb_spec). Qed.

  (* One-or-set wrapper. *)
  Theorem C19_oneorset_nonempty : forall v, oos_wf T K key v -> oos_to_list T v <> [].
  Proof. exact (oos_nonempty T K key). Qed.
  Theorem C19_oneorset_unique : forall v, oos_wf T K key v -> NoDup (map key (oos_to_list T v)).
  Proof. exact (oos_unique T K key). Qed.
  Theorem C19_oneorset_from_vec : forall l,
    match oos_try_from_vec T K key keqb l with
    | None => l = [] \/ ~ NoDup (map key l)
    | Some v => oos_wf T K key v /\ oos_to_list T v = l
    end.
  Proof. exact (oos_try_from_vec_spec T K key keqb keqb_spec). Qed.
  Theorem C19_oneorset_append_wf : forall v x,
    oos_wf T K key v -> oos_wf T K key (fst (oos_append T K key keqb v x)).
  Proof. exact (oos_append_wf T K key keqb keqb_spec). Qed.
  Theorem C19_oneorset_map_wf : forall f v,
    oos_wf T K key v -> oos_wf T K key (oos_map T K key keqb f v).
  Proof. exact (oos_map_wf T K key keqb keqb_spec). Qed.
  Theorem C19_oneorset_deser_wf : forall j v, oos_deser T K key keqb j = Some v -> oos_wf T K key v.
  Proof. exact (oos_deser_wf T K key keqb keqb_spec). Qed.
  (* a one-element array and the bare item deserialise to the SAME value (the pinned tree kept the array as a one-element Set: repaired) *)
  Theorem C19_oneorset_singleton_array_is_one : forall x,
    oos_deser_gen T K key keqb true (JArr [x]) = Some (OSSet [x]) /\ oos_deser T K key keqb (JArr [x]) = Some (OSOne x).
  Proof. exact (oos_deser_pinned_singleton_set T K key keqb). Qed.
  Theorem C19_singleton_bare : forall x,
    oos_ser T (oos_new_one T x) = JVal x
    /\ option_map (oos_ser T) (oos_new_set T [x]) = Some (JVal x)
    /\ option_map (oos_ser T) (oos_try_from_vec T K key keqb [x]) = Some (JVal x)
    /\ oom_ser T (oom_from_vec T [x]) = JVal x.
  Proof. exact (fun x => conj (oos_singleton_bare_one T x) (conj (oos_singleton_bare_set T x)
           (conj (oos_singleton_bare_vec T K key keqb x) (oom_singleton_bare T x)))). Qed.
  Theorem C19_deser_ser_id_oneorset : forall v,
    oos_wf T K key v -> oos_deser T K key keqb (oos_ser T v) = Some v.
  Proof. exact (oos_deser_ser T K key keqb keqb_spec). Qed.
  Theorem C19_deser_ser_id_oneormany : forall v : oneormany T, oom_deser T (oom_ser T v) = Some v.
  Proof. exact (oom_deser_ser T). Qed.
End C19.

(* Non-vacuity: the hypotheses are satisfiable and the theorems speak about non-trivial lists. *)
Example C19_example_inv : NoDup (map (@fst nat nat) [(1, 0); (2, 5); (3, 1)]).
Proof. repeat constructor; cbn; intuition discriminate. Qed.
Example C19_example_replace :
  os_replace (nat * nat) nat fst Nat.eqb [(1, 0); (2, 5); (3, 1)] 1 (3, 9) = ([(3, 9); (2, 5)], true).
Proof. reflexivity. Qed.

Print Assumptions C19_refines.
Print Assumptions C19_inv.
Print Assumptions C19_order_kept_survivors.
Print Assumptions C19_order_kept_in_place.
Print Assumptions C19_no_match_unchanged.
Print Assumptions C19_remove_first.
Print Assumptions C19_remove_absent.
Print Assumptions C19_from_vec_rejects_dups.
Print Assumptions C19_collect_keeps_first.
Print Assumptions C19_collect_unique.
Print Assumptions C19_collect_same_keys.
Print Assumptions C19_oneorset_nonempty.
Print Assumptions C19_oneorset_unique.
Print Assumptions C19_oneorset_from_vec.
Print Assumptions C19_oneorset_append_wf.
Print Assumptions C19_oneorset_map_wf.
Print Assumptions C19_oneorset_deser_wf.
Print Assumptions C19_oneorset_singleton_array_is_one.
Print Assumptions C19_singleton_bare.
Print Assumptions C19_deser_ser_id_oneorset.
Print Assumptions C19_deser_ser_id_oneormany.
