(* C06 — Revocation bitmaps round-trip and revoke exactly the requested indices. Statements only. *)
From Coq Require Import List NArith Bool.
From IdV Require Import Lib.Base64 Doc.Doc Cred.Bitmap Proofs.Base64Proofs Proofs.BitmapProofs.
Import ListNotations.
Open Scope N_scope.

(* every index set survives encoding into a service and decoding back (codec = flate2 + roaring, recorded per case) *)
Theorem C06_service_roundtrip :
  forall comp decomp, (forall s, decomp (comp s) = Some s) -> (forall s, exists r, comp s = 120 :: 156 :: r) -> (forall s, Forall byte_ok (comp s)) ->
  forall id s, try_from_service decomp legacy_fixed (to_service comp id s) = Some s.
Proof. exact service_roundtrip. Qed.
Print Assumptions C06_service_roundtrip.

Theorem C06_legacy_form_decodes :
  forall comp decomp, (forall s, decomp (comp s) = Some s) -> (forall s, exists r, comp s = 120 :: 156 :: r) -> (forall s, Forall byte_ok (comp s)) ->
  forall s, deser64 decomp legacy_fixed (b64s_encode (ser64 comp s)) = Some s.
Proof. exact legacy_decodes. Qed.
Print Assumptions C06_legacy_form_decodes.

Theorem C06_revoke_exact :
  forall comp decomp, (forall s, decomp (comp s) = Some s) -> (forall s, exists r, comp s = 120 :: 156 :: r) -> (forall s, Forall byte_ok (comp s)) ->
  (forall z s, decomp z = Some s -> sorted s = true) ->
  forall d q idxs d', revoke_credentials comp decomp legacy_fixed d q idxs = Some d' ->
  exists bm bm', resolve_bitmap decomp legacy_fixed d q = Some bm /\ resolve_bitmap decomp legacy_fixed d' q = Some bm'
    /\ forall x, In x bm' <-> In x idxs \/ In x bm.
Proof. exact revoke_exact. Qed.
Print Assumptions C06_revoke_exact.

Theorem C06_unrevoke_exact :
  forall comp decomp, (forall s, decomp (comp s) = Some s) -> (forall s, exists r, comp s = 120 :: 156 :: r) -> (forall s, Forall byte_ok (comp s)) ->
  (forall z s, decomp z = Some s -> sorted s = true) ->
  forall d q idxs d', unrevoke_credentials comp decomp legacy_fixed d q idxs = Some d' ->
  exists bm bm', resolve_bitmap decomp legacy_fixed d q = Some bm /\ resolve_bitmap decomp legacy_fixed d' q = Some bm'
    /\ forall x, In x bm' <-> ~ In x idxs /\ In x bm.
Proof. exact unrevoke_exact. Qed.
Print Assumptions C06_unrevoke_exact.

(* the other services of the document are untouched, the set of service ids does not change *)
Theorem C06_update_frame :
  forall comp decomp d q f d', update_bitmap comp decomp legacy_fixed d q f = Some d' ->
  forall sv, In sv d -> qmatches q (bs_id sv) = false -> In sv d'.
Proof. exact update_frame. Qed.
Print Assumptions C06_update_frame.

(* the pinned tree rejected its own encodings whenever the text did not start with "eJy" (repaired; see KNOWN_FINDINGS fixed: C06) *)
Theorem C06_pinned_roundtrip_refuted :
  (forall s, exists r, toy_comp s = 120 :: 156 :: r) /\ deser64 toy_decomp legacy_pinned (ser64 toy_comp []) = None
  /\ deser64 toy_decomp legacy_fixed (ser64 toy_comp []) = Some [].
Proof. exact pinned_roundtrip_refuted. Qed.
Print Assumptions C06_pinned_roundtrip_refuted.
