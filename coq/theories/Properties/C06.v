(* C06 — Revocation bitmaps round-trip and revoke exactly the requested indices. Statements only.
   A bitmap is a strictly increasing list of 32-bit indices (valid_set).  The roaring wire format is modelled
   (Cred/Roaring.v); zlib is the only assumed layer: zc / zd with
     Z1 zd (zc b) = Some b   Z2 zc b starts 0x78 0x9C   Z3 zc b is bytes   (all for byte strings b)   Z4 zd yields bytes. *)
From Coq Require Import List NArith Bool.
From IdV Require Import Lib.Base64 Doc.Doc Cred.Bitmap Cred.Roaring Proofs.Base64Proofs Proofs.BitmapProofs Proofs.RoaringProofs Proofs.BitmapCodecProofs.
Import ListNotations.
Open Scope N_scope.

(* the roaring layer on its own: what serialize_into writes for a set, deserialize_slice reads back as that set *)
Theorem C06_roaring_roundtrip : forall s, valid_set s -> rdecode (rser s) = Some s.
Proof. exact rdecode_rser. Qed.
Print Assumptions C06_roaring_roundtrip.

(* whatever deserialize_slice accepts is a strictly increasing list of 32-bit indices, so it can be written again (no
   accepted bitmap is unserialisable: the defect repaired by 42568e1) *)
Theorem C06_roaring_accepts_only_sets : forall z s, rdecode z = Some s -> Forall byte_ok z -> valid_set s /\ rdecode (rser s) = Some s.
Proof. intros z s E F. split; [apply (rdecode_valid _ _ E F)|apply (rdecode_reencodes _ _ E F)]. Qed.
Print Assumptions C06_roaring_accepts_only_sets.

Theorem C06_roaring_pinned_accepts_empty_container :
  rdecode_conts [59; 48; 0; 0; 1; 0; 0; 2; 0; 0; 0] = Some [(0, [])] /\ has_empty_container [59; 48; 0; 0; 1; 0; 0; 2; 0; 0; 0] = true
  /\ rdecode [59; 48; 0; 0; 1; 0; 0; 2; 0; 0; 0] = Some [].
Proof. exact pinned_accepts_empty_container. Qed.
Print Assumptions C06_roaring_pinned_accepts_empty_container.

(* every index set survives encoding into a service and decoding back *)
Theorem C06_service_roundtrip :
  forall zc zd, (forall b, Forall byte_ok b -> zd (zc b) = Some b) -> (forall b, Forall byte_ok b -> exists r, zc b = 120 :: 156 :: r) ->
  (forall b, Forall byte_ok b -> Forall byte_ok (zc b)) ->
  forall id s, valid_set s -> try_from_service (decomp_r zd) legacy_fixed (to_service (comp_r zc) id s) = Some s.
Proof. exact r_service_roundtrip. Qed.
Print Assumptions C06_service_roundtrip.

Theorem C06_legacy_form_decodes :
  forall zc zd, (forall b, Forall byte_ok b -> zd (zc b) = Some b) -> (forall b, Forall byte_ok b -> exists r, zc b = 120 :: 156 :: r) ->
  (forall b, Forall byte_ok b -> Forall byte_ok (zc b)) ->
  forall s, valid_set s -> deser64 (decomp_r zd) legacy_fixed (b64s_encode (ser64 (comp_r zc) s)) = Some s.
Proof. exact r_legacy_decodes. Qed.
Print Assumptions C06_legacy_form_decodes.

Theorem C06_revoke_exact :
  forall zc zd, (forall b, Forall byte_ok b -> zd (zc b) = Some b) -> (forall b, Forall byte_ok b -> exists r, zc b = 120 :: 156 :: r) ->
  (forall b, Forall byte_ok b -> Forall byte_ok (zc b)) -> (forall z b, zd z = Some b -> Forall byte_ok b) ->
  forall d q idxs d', Forall (fun x => x < 4294967296) idxs -> revoke_credentials (comp_r zc) (decomp_r zd) legacy_fixed d q idxs = Some d' ->
  exists bm bm', resolve_bitmap (decomp_r zd) legacy_fixed d q = Some bm /\ resolve_bitmap (decomp_r zd) legacy_fixed d' q = Some bm'
    /\ forall x, In x bm' <-> In x idxs \/ In x bm.
Proof. exact r_revoke_exact. Qed.
Print Assumptions C06_revoke_exact.

Theorem C06_unrevoke_exact :
  forall zc zd, (forall b, Forall byte_ok b -> zd (zc b) = Some b) -> (forall b, Forall byte_ok b -> exists r, zc b = 120 :: 156 :: r) ->
  (forall b, Forall byte_ok b -> Forall byte_ok (zc b)) -> (forall z b, zd z = Some b -> Forall byte_ok b) ->
  forall d q idxs d', unrevoke_credentials (comp_r zc) (decomp_r zd) legacy_fixed d q idxs = Some d' ->
  exists bm bm', resolve_bitmap (decomp_r zd) legacy_fixed d q = Some bm /\ resolve_bitmap (decomp_r zd) legacy_fixed d' q = Some bm'
    /\ forall x, In x bm' <-> ~ In x idxs /\ In x bm.
Proof. exact r_unrevoke_exact. Qed.
Print Assumptions C06_unrevoke_exact.

(* the other services of the document are untouched, the set of service ids does not change *)
Theorem C06_update_frame :
  forall comp decomp d q f d', update_bitmap comp decomp legacy_fixed d q f = Some d' ->
  forall sv, In sv d -> qmatches q (bs_id sv) = false -> In sv d'.
Proof. exact update_frame. Qed.
Print Assumptions C06_update_frame.

(* the assumptions about zlib can be met together (a stored stand-in): the statements above are not vacuous *)
Theorem C06_assumptions_satisfiable :
  (forall b, Forall byte_ok b -> toy_zd (toy_zc b) = Some b) /\ (forall b, Forall byte_ok b -> exists r, toy_zc b = 120 :: 156 :: r)
  /\ (forall b, Forall byte_ok b -> Forall byte_ok (toy_zc b)) /\ (forall z b, toy_zd z = Some b -> Forall byte_ok b)
  /\ forall id s, valid_set s -> try_from_service (decomp_r toy_zd) legacy_fixed (to_service (comp_r toy_zc) id s) = Some s.
Proof. repeat split; [exact toy_z1|exact toy_z2|exact toy_z3|exact toy_z4|exact toy_service_roundtrip]. Qed.
Print Assumptions C06_assumptions_satisfiable.

(* the pinned tree rejected its own encodings whenever the text did not start with "eJy" (repaired; see KNOWN_FINDINGS fixed: C06) *)
Theorem C06_pinned_roundtrip_refuted :
  (forall s, exists r, toy_comp s = 120 :: 156 :: r) /\ deser64 toy_decomp legacy_pinned (ser64 toy_comp []) = None
  /\ deser64 toy_decomp legacy_fixed (ser64 toy_comp []) = Some [].
Proof. exact pinned_roundtrip_refuted. Qed.
Print Assumptions C06_pinned_roundtrip_refuted.
