(* C06 — Revocation bitmaps round-trip and revoke exactly the requested indices. Statements only.
   A bitmap is a strictly increasing list of 32-bit indices (valid_set).  The roaring wire format is modelled
   (Cred/Roaring.v); zlib is the only assumed layer: zc / zd with
     Z1 zd (zc b) = Some b   Z2 zc b starts 0x78 0x9C   Z3 zc b is bytes   (all for byte strings b)   Z4 zd yields bytes. *)
From Coq Require Import List NArith Bool.
From IdV Require Import Lib.Base64 Doc.Doc Cred.Bitmap Cred.Roaring Cred.BitmapStatus Proofs.Base64Proofs Proofs.BitmapProofs Proofs.RoaringProofs Proofs.BitmapCodecProofs Proofs.BitmapStatusProofs.
Import ListNotations.
Open Scope N_scope.

(* the roaring layer on its own: what serialize_into writes for a set, deserialize_slice reads back as that set *)
Theorem C06_roaring_roundtrip : forall s, valid_set s -> rdecode (rser s) = Some s.
Proof. exact rdecode_rser. Qed.
Print Assumptions C06_roaring_roundtrip.

(* whatever deserialize_slice accepts is a strictly increasing list of 32-bit indices, so it can be written again (no
   accepted bitmap is unserialisable: the defect repaired by 42568e1) *)
Theorem C06_roaring_accepts_only_sets : forall z s, rdecode z = Some s -> Forall byte_ok z -> valid_set s /\ rdecode (rser s) = Some s.
Proof. intros z s E F. split; [apply (rdecode_valid _ _ E F)|apply (rdecode_reencodes _ _ E F)]. Qed.
Print Assumptions C06_roaring_accepts_only_sets.

Theorem C06_roaring_pinned_accepts_empty_container :
  rdecode_conts [59; 48; 0; 0; 1; 0; 0; 2; 0; 0; 0] = Some [(0, [])] /\ has_empty_container [59; 48; 0; 0; 1; 0; 0; 2; 0; 0; 0] = true
  /\ rdecode [59; 48; 0; 0; 1; 0; 0; 2; 0; 0; 0] = Some [].
Proof. exact pinned_accepts_empty_container. Qed.
Print Assumptions C06_roaring_pinned_accepts_empty_container.

(* every index set survives encoding into a service and decoding back *)
Theorem C06_service_roundtrip :
  forall zc zd, (forall b, Forall byte_ok b -> zd (zc b) = Some b) -> (forall b, Forall byte_ok b -> exists r, zc b = 120 :: 156 :: r) ->
  (forall b, Forall byte_ok b -> Forall byte_ok (zc b)) ->
  forall id s, valid_set s -> try_from_service (decomp_r zd) legacy_fixed (to_service (comp_r zc) id s) = Some s.
Proof. exact r_service_roundtrip. Qed.
Print Assumptions C06_service_roundtrip.

Theorem C06_legacy_form_decodes :
  forall zc zd, (forall b, Forall byte_ok b -> zd (zc b) = Some b) -> (forall b, Forall byte_ok b -> exists r, zc b = 120 :: 156 :: r) ->
  (forall b, Forall byte_ok b -> Forall byte_ok (zc b)) ->
  forall s, valid_set s -> deser64 (decomp_r zd) legacy_fixed (b64s_encode (ser64 (comp_r zc) s)) = Some s.
Proof. exact r_legacy_decodes. Qed.
Print Assumptions C06_legacy_form_decodes.

Theorem C06_revoke_exact :
  forall zc zd, (forall b, Forall byte_ok b -> zd (zc b) = Some b) -> (forall b, Forall byte_ok b -> exists r, zc b = 120 :: 156 :: r) ->
  (forall b, Forall byte_ok b -> Forall byte_ok (zc b)) -> (forall z b, zd z = Some b -> Forall byte_ok b) ->
  forall d q idxs d', Forall (fun x => x < 4294967296) idxs -> revoke_credentials (comp_r zc) (decomp_r zd) legacy_fixed d q idxs = Some d' ->
  exists bm bm', resolve_bitmap (decomp_r zd) legacy_fixed d q = Some bm /\ resolve_bitmap (decomp_r zd) legacy_fixed d' q = Some bm'
    /\ forall x, In x bm' <-> In x idxs \/ In x bm.
Proof. exact r_revoke_exact. Qed.
Print Assumptions C06_revoke_exact.

Theorem C06_unrevoke_exact :
  forall zc zd, (forall b, Forall byte_ok b -> zd (zc b) = Some b) -> (forall b, Forall byte_ok b -> exists r, zc b = 120 :: 156 :: r) ->
  (forall b, Forall byte_ok b -> Forall byte_ok (zc b)) -> (forall z b, zd z = Some b -> Forall byte_ok b) ->
  forall d q idxs d', unrevoke_credentials (comp_r zc) (decomp_r zd) legacy_fixed d q idxs = Some d' ->
  exists bm bm', resolve_bitmap (decomp_r zd) legacy_fixed d q = Some bm /\ resolve_bitmap (decomp_r zd) legacy_fixed d' q = Some bm'
    /\ forall x, In x bm' <-> ~ In x idxs /\ In x bm.
Proof. exact r_unrevoke_exact. Qed.
Print Assumptions C06_unrevoke_exact.

(* the other services of the document are untouched, the set of service ids does not change *)
Theorem C06_update_frame :
  forall comp decomp d q f d', update_bitmap comp decomp legacy_fixed d q f = Some d' ->
  forall sv, In sv d -> qmatches q (bs_id sv) = false -> In sv d'.
Proof. exact update_frame. Qed.
Print Assumptions C06_update_frame.

(* third clause: the credentialStatus entry.  try_from accepts exactly the entries of the right type whose revocationBitmapIndex is a
   string that u32::from_str reads and whose every "index" query value reads as the same number *)
Theorem C06_status_entry_accepts_exactly : forall st n, status_try_from st = Some n <->
  bst_type_ok st = true /\ exists s, bst_prop st = IpStr s /\ parse_u32 s = Some n /\ forall v, In v (bst_query_index st) -> parse_u32 v = Some n.
Proof. exact status_try_from_spec. Qed.
Print Assumptions C06_status_entry_accepts_exactly.
(* every 32-bit index printed by to_string is read back by from_str; an entry built by RevocationBitmapStatus::new is accepted with its index *)
Theorem C06_status_new_accepted : forall n, n < 4294967296 -> parse_u32 (print_u32 n) = Some n /\ status_try_from (status_new n) = Some n.
Proof. intros n H. split; [apply parse_print; exact H|apply status_new_accepted; exact H]. Qed.
Print Assumptions C06_status_new_accepted.
(* an accepted entry whose id is a DID URL is reported revoked exactly when its index is a member of the bitmap the service holds,
   valid exactly when it is not; an entry that is not accepted (or whose id is no DID URL) is an invalid status, never "valid" *)
Theorem C06_status_revoked_iff_member : forall st bm n, status_try_from st = Some n ->
  (status_check st true bm = 1 <-> In n bm) /\ (status_check st true bm = 0 <-> ~ In n bm).
Proof. exact status_check_revoked_iff. Qed.
Print Assumptions C06_status_revoked_iff_member.
Theorem C06_status_refused_is_invalid : forall st id_ok bm, status_try_from st = None \/ id_ok = false -> status_check st id_ok bm = 2.
Proof. exact status_check_invalid. Qed.
Print Assumptions C06_status_refused_is_invalid.

(* the assumptions about zlib can be met together (a stored stand-in): the statements above are not vacuous *)
Theorem C06_assumptions_satisfiable :
  (forall b, Forall byte_ok b -> toy_zd (toy_zc b) = Some b) /\ (forall b, Forall byte_ok b -> exists r, toy_zc b = 120 :: 156 :: r)
  /\ (forall b, Forall byte_ok b -> Forall byte_ok (toy_zc b)) /\ (forall z b, toy_zd z = Some b -> Forall byte_ok b)
  /\ forall id s, valid_set s -> try_from_service (decomp_r toy_zd) legacy_fixed (to_service (comp_r toy_zc) id s) = Some s.
Proof. repeat split; [exact toy_z1|exact toy_z2|exact toy_z3|exact toy_z4|exact toy_service_roundtrip]. Qed.
Print Assumptions C06_assumptions_satisfiable.

(* the pinned tree rejected its own encodings whenever the text did not start with "eJy" (repaired; see KNOWN_FINDINGS fixed: C06) *)
Theorem C06_pinned_roundtrip_refuted :
  (forall s, exists r, toy_comp s = 120 :: 156 :: r) /\ deser64 toy_decomp legacy_pinned (ser64 toy_comp []) = None
  /\ deser64 toy_decomp legacy_fixed (ser64 toy_comp []) = Some [].
Proof. exact pinned_roundtrip_refuted. Qed.
Print Assumptions C06_pinned_roundtrip_refuted.
