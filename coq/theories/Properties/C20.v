(* Property C20 — the resolver dispatches by DID method and is independent of completion order.
   Pinned statements, for EVERY handler table, acceptance predicate and answer function. *)
From Coq Require Import List ZArith Bool Permutation.
From IdV Require Import Resolver.Resolver Doc.Doc Proofs.ResolverProofs.
Import ListNotations.
Open Scope Z_scope.

Section C20.
  Variable table : list (Z * Z).
  Variable accepts : Z -> rdid -> bool.
  Variable answer : Z -> rdid -> option Z.

  (* exactly the handler registered for the DID's method, once, with that DID, result unchanged;
     no handler for the method: unsupported-method error and no call at all *)
  Theorem C20_dispatch_exact : forall d,
    match lookup table (r_method d) with
    | None => resolve table accepts answer d = (RErr EUnsupported, [])
    | Some h => if accepts h d
                then snd (resolve table accepts answer d) = [(h, d)]
                     /\ fst (resolve table accepts answer d) = match answer h d with Some doc => ROk doc | None => RErr EHandler end
                else resolve table accepts answer d = (RErr EParse, [])
    end.
  Proof. exact (dispatch_exact table accepts answer). Qed.
  Theorem C20_only_registered_handler_called : forall d h x,
    In (h, x) (snd (resolve table accepts answer d)) -> x = d /\ lookup table (r_method d) = Some h.
  Proof. exact (dispatch_handler_registered table accepts answer). Qed.

  (* any two completion orders of the distinct DIDs: both succeed with the same entries (one per
     distinct input DID, each equal to single resolution), or both fail because some DID fails *)
  Theorem C20_multiple_order_indep : forall dids order order',
    Permutation order (dedup dids) -> Permutation order' (dedup dids) ->
    match resolve_multiple table accepts answer order, resolve_multiple table accepts answer order' with
    | inl l, inl l' => Permutation l l' /\ NoDup (map fst l) /\ (forall d, In d dids <-> In d (map fst l))
                       /\ (forall d doc, In (d, doc) l -> fst (resolve table accepts answer d) = ROk doc)
    | inr _, inr _ => exists d e, In d dids /\ fst (resolve table accepts answer d) = RErr e
    | _, _ => False
    end.
  Proof. exact (multiple_order_indep table accepts answer). Qed.
  Theorem C20_one_entry_per_distinct : forall l, NoDup (dedup l) /\ (forall d, In d (dedup l) <-> In d l).
  Proof. exact (fun l => conj (dedup_nodup l) (dedup_in l)). Qed.
  (* a failing resolve_multiple reports the error of the FIRST failure in completion order, every
     DID completed before it having resolved *)
  Theorem C20_multiple_error_is_first_failure : forall order e,
    resolve_multiple table accepts answer order = inr e ->
    exists pre d post, order = pre ++ d :: post
      /\ (forall x, In x pre -> exists doc, fst (resolve table accepts answer x) = ROk doc)
      /\ fst (resolve table accepts answer d) = RErr e.
  Proof. exact (multiple_error_is_first_failure table accepts answer). Qed.
End C20.

Theorem C20_did_jwk_single_method : forall did key,
  let d := expand_did_jwk did key in
  check d = true /\ sets_ok d = true
  /\ methods d None = [{| m_id := jwk_method_id did; m_data := key |}]
  /\ (forall r, r <> RKeyAgr ->
        resolve_method d (query_of_url (jwk_method_id did)) (Some (SRel r)) = Some {| m_id := jwk_method_id did; m_data := key |})
  /\ resolve_method d (query_of_url (jwk_method_id did)) (Some (SRel RKeyAgr)) = None.
Proof. exact did_jwk_single_method. Qed.

(* attach_handler histories (HashMap insert): the handler in force for a method is the one attached
   LAST for it, a method never attached is unsupported, and an attachment for one method leaves the
   resolution of every DID of another method unchanged - for EVERY history, handler and DID *)
Theorem C20_last_attachment_wins : forall before after m h,
  (forall e, In e after -> fst e <> m) ->
  lookup (table_of (before ++ (m, h) :: after)) m = Some h.
Proof. exact last_attachment_wins. Qed.
Theorem C20_never_attached_unsupported : forall hist m,
  lookup (table_of hist) m = None <-> (forall e, In e hist -> fst e <> m).
Proof. exact never_attached_unsupported. Qed.
Theorem C20_attach_other_method_irrelevant : forall accepts answer t m h d,
  r_method d <> m -> resolve (attach_handler t m h) accepts answer d = resolve t accepts answer d.
Proof. exact attach_other_method_irrelevant. Qed.
Theorem C20_attach_same_method_replaces : forall accepts answer t m h d,
  r_method d = m ->
  resolve (attach_handler t m h) accepts answer d =
    if accepts h d then (match answer h d with Some doc => ROk doc | None => RErr EHandler end, [(h, d)])
    else (RErr EParse, []).
Proof. exact attach_same_method_replaces. Qed.
Example C20_attach_history_nonvacuous :
  lookup (table_of [(1, 10); (2, 20); (1, 11); (3, 30)]) 1 = Some 11
  /\ lookup (table_of [(1, 10); (2, 20); (1, 11); (3, 30)]) 4 = None.
Proof. split; reflexivity. Qed.

Print Assumptions C20_dispatch_exact.
Print Assumptions C20_only_registered_handler_called.
Print Assumptions C20_multiple_order_indep.
Print Assumptions C20_one_entry_per_distinct.
Print Assumptions C20_did_jwk_single_method.
Print Assumptions C20_last_attachment_wins.
Print Assumptions C20_never_attached_unsupported.
Print Assumptions C20_attach_other_method_irrelevant.
Print Assumptions C20_attach_same_method_replaces.
Print Assumptions C20_multiple_error_is_first_failure.
