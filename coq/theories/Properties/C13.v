(* Property C13 — timestamps are total, canonical whole-second UTC instants in years 0000-9999.
   A timestamp is modelled as its unix second count; ordering of timestamps is therefore the
   ordering of unix seconds by construction of the abstraction (the harness compares the
   implementation's Ord with integer order on pairs).  Pinned statements only. *)
From Coq Require Import List ZArith NArith Bool.
From IdV Require Import Lib.Outcome Lib.Calendar Core.Timestamp Proofs.CalendarProofs Proofs.TimestampProofs.
Import ListNotations.
Open Scope Z_scope.

(* the calendar underneath: civil_from_days is a right inverse of days_from_civil on every day
   number, with valid month/day; year 0..9999 is exactly the day range of TS_MIN..TS_MAX *)
Theorem C13_calendar_roundtrip : forall z, let '(y, m, d) := civil_from_days z in
  days_from_civil y m d = z /\ 1 <= m <= 12 /\ 1 <= d <= dim y m.
Proof. exact dfc_cfd. Qed.
Theorem C13_year_gate_iff : forall t, ts_gate t = true <-> TS_MIN <= t <= TS_MAX.
Proof. exact gate_iff. Qed.

(* parsing fails or yields the instant the string denotes, truncated to the second *)
Theorem C13_parse_denotes : forall s t, ts_parse s = Ok t ->
  exists c, ts_lex s = Some c /\ ts_valid c = true /\ t = ts_instant c.
Proof. exact parse_denotes. Qed.
Theorem C13_accepted_in_range : forall s t, ts_parse s = Ok t -> TS_MIN <= t <= TS_MAX.
Proof. exact parse_in_range. Qed.
(* total: parse never panics; formatting an accepted value never panics *)
Theorem C13_total : forall s, ts_parse s <> Panic /\ (forall t, ts_parse s = Ok t -> ts_to_rfc3339 t <> Panic).
Proof. exact (fun s => conj (parse_never_panics s) (format_never_panics_on_accepted s)). Qed.
Theorem C13_format_total : forall t, TS_MIN <= t <= TS_MAX -> exists s, ts_to_rfc3339 t = Ok s.
Proof. exact format_total. Qed.
(* format-then-parse (= the JSON round trip: the JSON form is the RFC 3339 string) *)
Theorem C13_format_parse : forall t, TS_MIN <= t <= TS_MAX ->
  exists s, ts_to_rfc3339 t = Ok s /\ ts_parse s = Ok t.
Proof. exact format_parse. Qed.
(* unix seconds: accepted exactly in range, and then unchanged *)
Theorem C13_unix_roundtrip : forall z, ts_from_unix z = Ok z <-> TS_MIN <= z <= TS_MAX.
Proof. exact from_unix_iff. Qed.
Theorem C13_unix_out_of_range : forall z, ~ (TS_MIN <= z <= TS_MAX) -> ts_from_unix z = Err TsInvalid.
Proof. exact from_unix_out. Qed.
(* checked arithmetic = integer arithmetic, None exactly when the result leaves the range *)
Theorem C13_checked_add : forall t d,
  ts_checked_add t d = if (TS_MIN <=? t + d) && (t + d <=? TS_MAX) then Some (t + d) else None.
Proof. exact checked_add_spec. Qed.
Theorem C13_checked_sub : forall t d,
  ts_checked_sub t d = if (TS_MIN <=? t - d) && (t - d <=? TS_MAX) then Some (t - d) else None.
Proof. exact checked_sub_spec. Qed.

(* Non-vacuity and the two repaired findings (F4, F5): the boundary strings are now errors *)
Example C13_example_parse :
  ts_parse (map Z.to_N [49;57;51;55;45;48;49;45;48;49;84;49;50;58;48;48;58;50;55;46;56;55;43;48;48;58;50;48])
  = Ok (-1041337173).   (* 1937-01-01T12:00:27.87+00:20 *)
Proof. vm_compute. reflexivity. Qed.
Example C13_example_f4 :   (* 9999-12-31T23:59:59-01:00 *)
  ts_parse (map Z.to_N [57;57;57;57;45;49;50;45;51;49;84;50;51;58;53;57;58;53;57;45;48;49;58;48;48]) = Err TsInvalid.
Proof. vm_compute. reflexivity. Qed.
Example C13_example_f5 :   (* 0000-01-01T00:00:00+01:00 *)
  ts_parse (map Z.to_N [48;48;48;48;45;48;49;45;48;49;84;48;48;58;48;48;58;48;48;43;48;49;58;48;48]) = Err TsInvalid.
Proof. vm_compute. reflexivity. Qed.

(* durations that arrive through serde carry (seconds, nanoseconds) of any sign: a whole-second duration behaves as the integer arithmetic,
   every result lies in the range, and a fraction moves the result by less than one second (floor) *)
Theorem C13_serde_duration_whole : forall t secs,
  ts_checked_add_ns t secs 0 = ts_checked_add t secs /\ ts_checked_sub_ns t secs 0 = ts_checked_sub t secs.
Proof. exact (fun t secs => conj (checked_add_ns_whole t secs) (checked_sub_ns_whole t secs)). Qed.
Theorem C13_serde_duration_in_range : forall t secs nanos x,
  (ts_checked_add_ns t secs nanos = Some x -> ts_gate x = true) /\ (ts_checked_sub_ns t secs nanos = Some x -> ts_gate x = true).
Proof. exact (fun t secs nanos x => conj (checked_add_ns_in_range t secs nanos x) (checked_sub_ns_in_range t secs nanos x)). Qed.
Theorem C13_serde_duration_floor : forall t secs nanos x, -1000000000 < nanos < 1000000000 ->
  ts_checked_add_ns t secs nanos = Some x -> t + secs - 1 <= x <= t + secs.
Proof. exact checked_add_ns_floor. Qed.

Print Assumptions C13_calendar_roundtrip.
Print Assumptions C13_year_gate_iff.
Print Assumptions C13_parse_denotes.
Print Assumptions C13_accepted_in_range.
Print Assumptions C13_total.
Print Assumptions C13_format_total.
Print Assumptions C13_format_parse.
Print Assumptions C13_unix_roundtrip.
Print Assumptions C13_unix_out_of_range.
Print Assumptions C13_checked_add.
Print Assumptions C13_checked_sub.
Print Assumptions C13_serde_duration_whole.
Print Assumptions C13_serde_duration_in_range.
Print Assumptions C13_serde_duration_floor.
