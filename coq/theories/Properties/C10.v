(* Property C10 — accepted DIDs and DID URLs are canonical, decomposable, free of stray parts.
   Pinned statements only.  Byte strings are lists of N; "did:" = [100;105;100;58], ':' = 58. *)
From Coq Require Import List NArith Bool.
From IdV Require Import Lib.Outcome Did.DidParse Proofs.DidProofs Proofs.DidUrlProofs Proofs.DidCompleteProofs Proofs.DidTotalProofs Proofs.DidSplitProofs Proofs.DidPctProofs Did.TpSetters Proofs.TpSettersProofs.
Import ListNotations.
Open Scope N_scope.

(* Plain DID, for EVERY byte string: the accepted string is exactly "did:" method ":" id (verbatim,
   components re-concatenate), method and id are non-empty and in their W3C character classes
   (id: idchars and well-formed pct-encoded triples). *)
Theorem C10_did_verbatim_concat_wf : forall s m i, core_did_parse s = Ok (m, i) ->
  s = [100; 105; 100; 58] ++ m ++ [58] ++ i
  /\ m <> [] /\ i <> [] /\ valid_method_name m = true /\ valid_method_id i = true.
Proof. exact core_did_parse_sound. Qed.
Theorem C10_method_id_tokens : forall i, valid_method_id i = true -> mid_token i.
Proof. exact (fun i => valid_method_id_tokens (length i) i (le_n _)). Qed.
(* a value of the plain DID type never carries a path, query or fragment *)
Theorem C10_did_has_no_url_parts : forall s m i, core_did_parse s = Ok (m, i) ->
  existsb stop_mid m = false /\ existsb stop_mid i = false.
Proof. exact core_did_no_url_parts. Qed.
(* DID URL, for EVERY byte string: all components of an accepted value are well-formed *)
Theorem C10_url_components_wf : forall s u, did_url_split_parse s = Ok u ->
  u_method u <> [] /\ valid_method_name (u_method u) = true /\ valid_method_id (u_mid u) = true
  /\ (forall p, u_path u = Some p -> exists t, p = 47 :: t /\ valid_seg char_path p = true)
  /\ (forall q, u_query u = Some q -> exists t, q = 63 :: t /\ t <> [] /\ valid_seg char_query t = true)
  /\ (forall f, u_frag u = Some f -> exists t, f = 35 :: t /\ t <> [] /\ valid_seg char_query t = true).
Proof. intros s u H. destruct (did_url_split_sound s u H) as [_ [_ [Nm [_ [Vm [Vi [Wp [Wq Wf]]]]]]]]. repeat split; auto.
  intros q Hq. destruct (Wq q Hq) as [t [A [B [C _]]]]. exists t. auto. Qed.
(* DID URL, for EVERY byte string (since fix 6c07746 percent signs included: DIDUrl::parse no longer asks the third-party parser
   about the URL part): the string form of an accepted value is the input VERBATIM, the DID part is "did:" method ":" id and
   the components re-concatenate to the input *)
Theorem C10_url_verbatim_concat : forall s u, did_url_split_parse s = Ok u ->
  did_url_to_string u = s
  /\ u_did u = [100; 105; 100; 58] ++ u_method u ++ [58] ++ u_mid u
  /\ s = [100; 105; 100; 58] ++ u_method u ++ [58] ++ u_mid u ++ oapp (u_path u) ++ oapp (u_query u) ++ oapp (u_frag u).
Proof. intros s u H. destruct (did_url_split_sound s u H) as [Es [Ed _]]. split; [exact Es|]. split; [exact Ed|].
  rewrite <- Es at 1. unfold did_url_to_string. rewrite Ed. rewrite <- !app_assoc. reflexivity. Qed.
(* no surrounding blanks or control characters are accepted (for EVERY byte string) *)
Theorem C10_url_trimmed : forall s u, did_url_split_parse s = Ok u -> trim s = s.
Proof. exact did_url_split_trimmed. Qed.
(* the tree before fix 358acae is refuted: "  did:a:b?q" was accepted and printed differently *)
Theorem C10_url_unguarded_refuted :
  exists s u, no_pct s = true /\ did_url_parse_unguarded s = Ok u /\ did_url_to_string u <> s.
Proof. exact did_url_unguarded_refuted. Qed.
(* setting a component: accepted values are stored with their delimiter as valid segments;
   otherwise Err (the setter assigns only on Ok, so the value is unchanged) *)
Theorem C10_set_path_sound : forall v r, set_path v = Ok r ->
  match r with
  | None => v = None \/ v = Some []
  | Some p => v = Some p /\ exists t, p = 47 :: t /\ valid_seg char_path p = true
  end.
Proof. exact set_path_sound. Qed.
Theorem C10_set_query_sound : forall v r, set_query v = Ok r ->
  match r with
  | None => v = None \/ v = Some []
  | Some q => exists t, q = 63 :: t /\ t <> [] /\ valid_seg char_query t = true /\ (v = Some t \/ v = Some q)
  end.
Proof. exact set_query_sound. Qed.
Theorem C10_set_fragment_sound : forall v r, set_fragment v = Ok r ->
  match r with
  | None => v = None \/ v = Some []
  | Some q => exists t, q = 35 :: t /\ t <> [] /\ valid_seg char_query t = true /\ (v = Some t \/ v = Some q)
  end.
Proof. exact set_fragment_sound. Qed.
(* COMPLETENESS (percent-free): the text "did:" m ":" i p ["?" q] ["#" f] with every part in its W3C character class
   (wf_parts: m, i non-empty; p empty or starting '/'; q, f non-empty) IS accepted and decomposes into exactly those parts *)
Theorem C10_url_complete : forall m i p oq of, wf_parts m i p oq of ->
  did_url_split_parse (url_text m i p oq of)
  = Ok {| u_did := [100; 105; 100; 58] ++ m ++ [58] ++ i; u_method := m; u_mid := i;
          u_path := opt_nonempty p; u_query := option_map (cons 63) oq; u_frag := option_map (cons 35) of |}.
Proof. exact did_url_split_complete. Qed.
(* so, outside K_pct, the parser accepts EXACTLY the well-formed texts ... *)
Theorem C10_url_accept_iff : forall s, no_pct s = true ->
  ((exists u, did_url_split_parse s = Ok u) <-> exists m i p oq of, s = url_text m i p oq of /\ wf_parts m i p oq of).
Proof. exact split_accept_iff. Qed.
(* plain DID, for EVERY byte string (percent-encoded triples included, since CoreDID::parse splits the text itself): accepted exactly when
   "did:" m ":" i with m, i non-empty in their classes; the value re-parses to itself, also after set_method_name / set_method_id *)
Theorem C10_did_accept_iff : forall s,
  ((exists mi, core_did_parse s = Ok mi) <->
   exists m i, s = [100; 105; 100; 58] ++ m ++ [58] ++ i /\ m <> [] /\ forallb char_method m = true /\ i <> [] /\ valid_method_id i = true).
Proof. exact core_did_accept_iff. Qed.
Theorem C10_did_reparse : forall s m i, core_did_parse s = Ok (m, i) -> core_did_parse ([100; 105; 100; 58] ++ m ++ [58] ++ i) = Ok (m, i).
Proof. exact core_did_reparse. Qed.
Theorem C10_did_set_method_id_reparses : forall s m i i', core_did_parse s = Ok (m, i) -> i' <> [] -> valid_method_id i' = true ->
  core_did_parse ([100; 105; 100; 58] ++ m ++ [58] ++ i') = Ok (m, i').
Proof. exact core_did_set_method_id_reparses. Qed.
Theorem C10_did_set_method_name_reparses : forall s m i m', core_did_parse s = Ok (m, i) -> m' <> [] -> valid_method_name m' = true ->
  core_did_parse ([100; 105; 100; 58] ++ m' ++ [58] ++ i) = Ok (m', i).
Proof. exact core_did_set_method_name_reparses. Qed.
Theorem C10_did_total : forall s, core_did_parse s <> Panic.
Proof. exact core_did_parse_total. Qed.
(* what the former route (guards + third-party parser + check_validity) accepted is still accepted, with the same components *)
Theorem C10_did_former_route_included : forall s mi, core_did_parse_tp s = Ok mi -> core_did_parse s = Ok mi.
Proof. exact core_did_parse_tp_included. Qed.
(* did:a:%41 - refused until the fix (class K_pct), accepted now *)
Example C10_did_pct_end_example : core_did_parse_tp [100;105;100;58;97;58;37;52;49] = Err EMethodId /\ core_did_parse [100;105;100;58;97;58;37;52;49] = Ok ([97], [37;52;49]).
Proof. split; vm_compute; reflexivity. Qed.
(* ... every accepted value re-parses from its string form to ITSELF ... *)
Theorem C10_url_reparse : forall s u, did_url_split_parse s = Ok u -> did_url_split_parse (did_url_to_string u) = Ok u.
Proof. exact did_url_split_reparse. Qed.
Theorem C10_url_accepted_wf : forall s u, no_pct s = true -> did_url_split_parse s = Ok u -> wf_url u.
Proof. exact split_parse_wf. Qed.
(* ... and a successful setter on such a value yields a value that re-parses to itself (a failing setter assigns nothing) *)
Theorem C10_set_path_reparses : forall u v r, wf_url u -> set_path v = Ok r -> no_pct (oapp r) = true ->
  did_url_split_parse (did_url_to_string (with_path u r)) = Ok (with_path u r).
Proof. exact split_set_path_reparses. Qed.
Theorem C10_set_query_reparses : forall u v r, wf_url u -> set_query v = Ok r -> no_pct (oapp r) = true ->
  did_url_split_parse (did_url_to_string (with_query u r)) = Ok (with_query u r).
Proof. exact split_set_query_reparses. Qed.
Theorem C10_set_fragment_reparses : forall u v r, wf_url u -> set_fragment v = Ok r -> no_pct (oapp r) = true ->
  did_url_split_parse (did_url_to_string (with_frag u r)) = Ok (with_frag u r).
Proof. exact split_set_fragment_reparses. Qed.
(* the route to a CoreDID that skips CoreDID::parse's guards (TryFrom<BaseDIDUrl>, which is also what serde uses): outside K_pct it
   accepts ONLY what CoreDID::parse accepts, with the same components - so every route yields the verbatim, decomposable value *)
Theorem C10_did_unguarded_route_sound : forall s m i, no_pct s = true -> core_did_from_base s = Ok (m, i) -> core_did_parse s = Ok (m, i).
Proof. exact core_did_from_base_sound. Qed.
(* DIDUrl::join: a segment that is not a relative path / query / fragment is refused; otherwise the DID part is never touched and whatever is
   returned (percent-free) is well formed and re-parses to ITSELF; join("#fragment"), the dominant use, is exactly the receiver with its
   fragment replaced.  (The third-party setters that rebuild the joined string are abstracted at component level; the correspondence run
   compares the string form of every joined value, dot-segment removal included.) *)
Theorem C10_join_sound : forall u seg j, wf_url u -> did_url_join u seg = Ok j ->
  u_did j = u_did u /\ u_method j = u_method u /\ u_mid j = u_mid u
  /\ (no_pct (did_url_to_string j) = true -> wf_url j /\ did_url_split_parse (did_url_to_string j) = Ok j).
Proof. exact split_join_sound. Qed.
Theorem C10_join_rejects_non_relative : forall u seg,
  (match seg with c :: _ => negb ((c =? 47) || (c =? 63) || (c =? 35)) | [] => true end) = true -> did_url_join u seg = Err EPath.
Proof. exact join_rejects_non_relative. Qed.
Theorem C10_join_fragment : forall u f, wf_url u -> f <> [] -> forallb char_query f = true ->
  did_url_join u (35 :: f) = Ok (with_frag u (Some (35 :: f))).
Proof. exact join_fragment. Qed.
(* equality, ordering and hashing agree: Eq holds exactly when Ord answers Equal, Ord is antisymmetric, equal values feed the same bytes
   to the hasher, and on well-formed values (all that parsing, setting and joining produce outside K_pct) the string form determines the value,
   so the four relations coincide *)
Theorem C10_eq_iff_ord_equal : forall u v, url_eqb u v = true <-> url_cmp u v = Eq.
Proof. exact url_eq_iff_cmp. Qed.
Theorem C10_ord_antisymmetric : forall u v, url_cmp v u = CompOpp (url_cmp u v).
Proof. exact url_cmp_antisym. Qed.
Theorem C10_eq_same_hash : forall u v, url_eqb u v = true -> url_hash_input u = url_hash_input v.
Proof. exact url_eq_same_hash_input. Qed.
Theorem C10_eq_iff_same_string : forall u v, wf_url u -> wf_url v -> (url_eqb u v = true <-> did_url_to_string u = did_url_to_string v).
Proof. exact url_eq_iff_string. Qed.
(* DIDUrl::parse is total on EVERY byte string: it never panics (the pinned tree did: C10_url_pct_panics_refuted below) *)
Theorem C10_url_total : forall s, did_url_split_parse s <> Panic.
Proof. exact did_url_split_total. Qed.
(* on percent-free strings the parser agrees with the route through the third-party parser that the pinned tree took *)
Theorem C10_url_agrees_with_third_party_route : forall s, no_pct s = true -> forall u, did_url_split_parse s = Ok u <-> did_url_parse s = Ok u.
Proof. exact split_agrees_with_third_party. Qed.
(* join never panics and never touches the DID part, for EVERY receiver and segment (the receiver's text is no longer re-parsed) *)
Theorem C10_join_total : forall u seg, did_url_join u seg <> Panic.
Proof. exact join_total. Qed.
Theorem C10_join_keeps_did : forall u seg j, did_url_join u seg = Ok j -> u_did j = u_did u /\ u_method j = u_method u /\ u_mid j = u_mid u.
Proof. exact join_keeps_did. Qed.
(* ---- the URL-level statements at full strength: EVERY byte string, percent-encoded triples included.  wfp_url: the DID is "did:" m ":" i with
   m, i non-empty and valid (valid_method_name / valid_method_id), the path starts with '/', query and fragment are non-empty behind their
   delimiter, each a valid segment of its class (class characters and well-formed triples) ---- *)
Theorem C10_url_accepted_wfp : forall s u, did_url_split_parse s = Ok u -> wfp_url u.
Proof. exact split_parse_wfp. Qed.
Theorem C10_url_wfp_reparses : forall u, wfp_url u -> did_url_split_parse (did_url_to_string u) = Ok u.
Proof. exact split_wfp_reparses. Qed.
Theorem C10_url_accept_iff_pct : forall s, (exists u, did_url_split_parse s = Ok u) <-> exists u, wfp_url u /\ s = did_url_to_string u.
Proof. exact split_accept_iff_pct. Qed.
Theorem C10_set_path_reparses_pct : forall u v r, wfp_url u -> set_path v = Ok r ->
  wfp_url (with_path u r) /\ did_url_split_parse (did_url_to_string (with_path u r)) = Ok (with_path u r).
Proof. exact (fun u v r W S => conj (set_path_wfp u v r W S) (set_path_reparses_pct u v r W S)). Qed.
Theorem C10_set_query_reparses_pct : forall u v r, wfp_url u -> set_query v = Ok r ->
  wfp_url (with_query u r) /\ did_url_split_parse (did_url_to_string (with_query u r)) = Ok (with_query u r).
Proof. exact (fun u v r W S => conj (set_query_wfp u v r W S) (set_query_reparses_pct u v r W S)). Qed.
Theorem C10_set_fragment_reparses_pct : forall u v r, wfp_url u -> set_fragment v = Ok r ->
  wfp_url (with_frag u r) /\ did_url_split_parse (did_url_to_string (with_frag u r)) = Ok (with_frag u r).
Proof. exact (fun u v r W S => conj (set_fragment_wfp u v r W S) (set_fragment_reparses_pct u v r W S)). Qed.
Theorem C10_join_sound_pct : forall u seg j, wfp_url u -> did_url_join u seg = Ok j ->
  u_did j = u_did u /\ u_method j = u_method u /\ u_mid j = u_mid u /\ wfp_url j /\ did_url_split_parse (did_url_to_string j) = Ok j.
Proof. exact join_sound_pct. Qed.
Theorem C10_eq_iff_same_string_pct : forall u v, wfp_url u -> wfp_url v -> (url_eqb u v = true <-> did_url_to_string u = did_url_to_string v).
Proof. exact url_eq_iff_string_pct. Qed.
(* the percent-free notion used above is the special case, and the general one is inhabited by a value with triples in every component *)
Theorem C10_wf_is_wfp : forall u, wf_url u -> wfp_url u.
Proof. exact wf_url_wfp. Qed.
Example C10_wfp_example : wfp_url {| u_did := [100;105;100;58;97;58;37;52;49]; u_method := [97]; u_mid := [37;52;49];
                                     u_path := Some [47;112;37;50;70]; u_query := Some [63;113;61;37;52;49]; u_frag := Some [35;102;37;52;49] |}.
Proof. exact wfp_example. Qed.
(* the third-party value CoreDID::parse assembles (placeholder, set_method, set_method_id: string splices and offset shifts, modelled in
   Did/TpSetters.v) holds "did:" m ":" i and answers its accessors with exactly m and i, no path, query or fragment - for EVERY m, i;
   and the base DIDUrl::join assembles from it (set_path, set_query, set_fragment) answers with exactly the receiver's components *)
Theorem C10_parse_assembles_value : forall m i,
  exists t, tp_assemble_did m i = Ok t
    /\ t_data t = [100; 105; 100; 58] ++ m ++ [58] ++ i
    /\ tp_method (t_data t) (t_core t) = Ok m /\ tp_method_id (t_data t) (t_core t) = Ok i
    /\ tp_path (t_data t) (t_core t) = Ok [] /\ tp_query (t_data t) (t_core t) = Ok None /\ tp_fragment (t_data t) (t_core t) = Ok None.
Proof. exact assemble_did_spec. Qed.
Theorem C10_join_base_assembled : forall m i p q f,
  exists t, tp_assemble_base m i p q f = Ok t
    /\ t_data t = [100; 105; 100; 58] ++ m ++ [58] ++ i ++ p ++ (match q with Some x => 63 :: x | None => [] end) ++ (match f with Some x => 35 :: x | None => [] end)
    /\ tp_method (t_data t) (t_core t) = Ok m /\ tp_method_id (t_data t) (t_core t) = Ok i
    /\ tp_path (t_data t) (t_core t) = Ok p /\ tp_query (t_data t) (t_core t) = Ok q /\ tp_fragment (t_data t) (t_core t) = Ok f.
Proof. exact assemble_base_spec. Qed.
(* in general: every setter of the third-party value (all arms of the crate's code) maps the CANONICAL value of some components - the
   string "did:" m ":" i p ["?" q] ["#" f] with the offsets that belong to it - to the canonical value of the updated components; the accessors
   of a canonical value answer with its components; hence what the third-party join computes from the assembled base (transform_references)
   is again canonical: nothing in the splice-and-shift arithmetic can misplace a component, whatever bytes the components hold *)
Theorem C10_tp_setters_canonical : forall m i p q f,
  (forall v, tp_set_method (tp_canon m i p q f) v = Ok (tp_canon v i p q f))
  /\ (forall v, tp_set_method_id (tp_canon m i p q f) v = Ok (tp_canon m v p q f))
  /\ (forall v, tp_set_path (tp_canon m i p q f) v = Ok (tp_canon m i v q f))
  /\ (forall v, tp_set_query (tp_canon m i p q f) v = Ok (tp_canon m i p v f))
  /\ (forall v, tp_set_fragment (tp_canon m i p q f) v = Ok (tp_canon m i p q v)).
Proof. exact (fun m i p q f => conj (set_method_canon m i p q f) (conj (set_method_id_canon m i p q f) (conj (set_path_canon m i p q f) (conj (set_query_canon m i p q f) (set_fragment_canon m i p q f))))). Qed.
Theorem C10_tp_canon_accessors : forall m i p q f,
  let t := tp_canon m i p q f in
  tp_method (t_data t) (t_core t) = Ok m /\ tp_method_id (t_data t) (t_core t) = Ok i
  /\ tp_path (t_data t) (t_core t) = Ok p /\ tp_query (t_data t) (t_core t) = Ok q /\ tp_fragment (t_data t) (t_core t) = Ok f.
Proof. exact canon_accessors. Qed.
Theorem C10_tp_parse_and_join_canonical : forall m i p q f path' query' F,
  tp_assemble_did m i = Ok (tp_canon m i [] None None)
  /\ tp_transform (tp_canon m i p q f) m i path' query' F = Ok (tp_canon m i path' query' F).
Proof. exact (fun m i p q f path' query' F => conj (assemble_did_canon m i) (transform_canon m i p q f path' query' F)). Qed.
(* and so the join model used above (did_url_join, which hands the transformed components straight to the RelativeDIDUrl setters) IS the
   function that carries the third-party value through assembly, transform_references, the accessors of from_base_did_url, the clearing
   setters and CoreDID::try_from - on every receiver whose DID text is "did:" method ":" id *)
Theorem C10_join_model_is_full_pipeline : forall u seg,
  u_did u = [100; 105; 100; 58] ++ u_method u ++ [58] ++ u_mid u -> did_url_join_full u seg = did_url_join u seg.
Proof. exact join_full_eq. Qed.
(* the hypotheses are satisfiable: did:ab:c:d/p?q=1#f *)
Example C10_wf_example : wf_parts [97; 98] [99; 58; 100] [47; 112] (Some [113; 61; 49]) (Some [102]).
Proof. constructor; [split; [discriminate|reflexivity] | split; [discriminate|reflexivity] | right; eexists; split; reflexivity
  | intros q H; inversion H; repeat split; discriminate | intros f H; inversion H; split; [discriminate|reflexivity]]. Qed.

(* the third-party parser's percent handling (did_url_parser 0.3.0; class K_pct): refutation witnesses. `did_url_parse` is the route through that
   parser which DIDUrl::parse took on the pinned tree (repaired by 6c07746; `join` still re-parses the receiver's own text that way) *)
Theorem C10_pct_swallow_refuted :
  tp_loop stop_mid char_method_id [37; 52; 49; 35; 120] = Some 5%nat
  /\ tp_loop stop_mid char_method_id [37; 52; 49] = Some 4%nat.
Proof. exact tp_pct_swallow_refuted. Qed.
Theorem C10_url_pct_panics_refuted : did_url_parse [100;105;100;58;97;58;37;52;49] = Panic.
Proof. exact did_url_pct_panics. Qed.

Example C10_example : core_did_parse [100;105;100;58;97;58;98;37;52;49;99] = Ok ([97], [98;37;52;49;99]).   (* did:a:b%41c *)
Proof. vm_compute. reflexivity. Qed.

Print Assumptions C10_did_verbatim_concat_wf.
Print Assumptions C10_method_id_tokens.
Print Assumptions C10_did_has_no_url_parts.
Print Assumptions C10_url_components_wf.
Print Assumptions C10_set_path_sound.
Print Assumptions C10_set_query_sound.
Print Assumptions C10_set_fragment_sound.
Print Assumptions C10_pct_swallow_refuted.
Print Assumptions C10_url_pct_panics_refuted.
Print Assumptions C10_url_verbatim_concat.
Print Assumptions C10_url_trimmed.
Print Assumptions C10_url_unguarded_refuted.
Print Assumptions C10_url_complete.
Print Assumptions C10_url_accept_iff.
Print Assumptions C10_did_accept_iff.
Print Assumptions C10_url_reparse.
Print Assumptions C10_url_accepted_wf.
Print Assumptions C10_set_path_reparses.
Print Assumptions C10_set_query_reparses.
Print Assumptions C10_set_fragment_reparses.
Print Assumptions C10_url_total.
Print Assumptions C10_url_agrees_with_third_party_route.
Print Assumptions C10_did_unguarded_route_sound.
Print Assumptions C10_did_reparse.
Print Assumptions C10_did_set_method_id_reparses.
Print Assumptions C10_did_set_method_name_reparses.
Print Assumptions C10_did_total.
Print Assumptions C10_did_former_route_included.
Print Assumptions C10_join_total.
Print Assumptions C10_join_keeps_did.
Print Assumptions C10_url_accepted_wfp.
Print Assumptions C10_url_wfp_reparses.
Print Assumptions C10_url_accept_iff_pct.
Print Assumptions C10_set_path_reparses_pct.
Print Assumptions C10_set_query_reparses_pct.
Print Assumptions C10_set_fragment_reparses_pct.
Print Assumptions C10_join_sound_pct.
Print Assumptions C10_eq_iff_same_string_pct.
Print Assumptions C10_wf_is_wfp.
Print Assumptions C10_parse_assembles_value.
Print Assumptions C10_join_base_assembled.
Print Assumptions C10_tp_setters_canonical.
Print Assumptions C10_tp_canon_accessors.
Print Assumptions C10_tp_parse_and_join_canonical.
Print Assumptions C10_join_model_is_full_pipeline.
Print Assumptions C10_eq_iff_ord_equal.
Print Assumptions C10_ord_antisymmetric.
Print Assumptions C10_eq_same_hash.
Print Assumptions C10_eq_iff_same_string.
Print Assumptions C10_join_sound.
Print Assumptions C10_join_rejects_non_relative.
Print Assumptions C10_join_fragment.
