(* C16 — SD-JWT credentials and key-binding JWTs are accepted only when fully bound. Statements only. *)
From Coq Require Import List ZArith Bool.
From IdV Require Import Lib.Outcome Doc.Doc Core.Timestamp Cred.Validate Cred.SdJwt Proofs.ValidateProofs Proofs.SdJwtProofs.
Import ListNotations.
Open Scope Z_scope.

(* the credential path: C02's conjunction and, in addition, the supplied disclosures decode into the signed claims *)
Theorem C16_credential_accept_iff :
  forall t i o ff c, sd_validate t i o ff = inl c <-> (signed_by (sd_tok t) [i] o c /\ sd_decodes t = true /\ units_ok c [i] o).
Proof. exact sd_validate_accept_iff. Qed.
Print Assumptions C16_credential_accept_iff.

(* the signature stage over ANY list of trusted issuers: the issuer is the document whose id is the DID of the kid / method id, and the
   credential's issuer must be that same DID (not merely some trusted issuer) *)
Theorem C16_verify_signature_iff :
  forall t issuers o c, sd_verify_signature t issuers o = inl c <-> (signed_by (sd_tok t) issuers o c /\ sd_decodes t = true).
Proof. exact sd_verify_signature_ok. Qed.

(* the key-binding JWT: accepted exactly when all of the listed conditions hold *)
Theorem C16_kb_accept_iff :
  forall now t holder o c, validate_kb now t holder o = Ok c <-> kb_accept now t holder o c.
Proof. exact kb_accept_iff_fixed. Qed.
Print Assumptions C16_kb_accept_iff.

Theorem C16_kb_never_panics : forall now t holder o, validate_kb now t holder o <> Panic.
Proof. exact kb_never_panics. Qed.
Print Assumptions C16_kb_never_panics.

(* the pinned tree: a key-binding JWT whose signature does not verify made the validator panic (repaired; KNOWN_FINDINGS fixed: C16) *)
Theorem C16_kb_pinned_panics :
  validate_kb_pinned 0 ex_kb ex_holder ex_ko = Panic /\ validate_kb 0 ex_kb ex_holder ex_ko = Err KSignature.
Proof. exact kb_pinned_panics. Qed.
Print Assumptions C16_kb_pinned_panics.
Print Assumptions C16_verify_signature_iff.

(* what is never accepted: a key-binding JWT whose sd_hash is not the digest of THIS presentation of the
   disclosures, whose nonce / audience is not the one the verifier asked for, or whose iat lies after
   `now` when no latest bound is configured; and the accepted value is the token's own claims *)
Theorem C16_kb_accepted_is_claims : forall now t holder o c, validate_kb now t holder o = Ok c -> kb_claims t = Some c.
Proof. exact kb_accepted_is_claims. Qed.
Theorem C16_kb_other_digest_rejected : forall now t holder o c c',
  kb_claims t = Some c -> kc_sd_hash c <> kb_digest t -> validate_kb now t holder o <> Ok c'.
Proof. exact kb_other_digest_rejected. Qed.
Theorem C16_kb_other_nonce_rejected : forall now t holder o c c' n,
  kb_claims t = Some c -> ko_nonce o = Some n -> n <> kc_nonce c -> validate_kb now t holder o <> Ok c'.
Proof. exact kb_other_nonce_rejected. Qed.
Theorem C16_kb_other_audience_rejected : forall now t holder o c c' a,
  kb_claims t = Some c -> ko_aud o = Some a -> a <> kc_aud c -> validate_kb now t holder o <> Ok c'.
Proof. exact kb_other_audience_rejected. Qed.
Theorem C16_kb_future_rejected : forall now t holder o c c',
  kb_claims t = Some c -> ko_latest o = None -> now < kc_iat c -> validate_kb now t holder o <> Ok c'.
Proof. exact kb_future_rejected. Qed.
Print Assumptions C16_kb_accepted_is_claims.
Print Assumptions C16_kb_other_digest_rejected.
Print Assumptions C16_kb_other_nonce_rejected.
Print Assumptions C16_kb_other_audience_rejected.
Print Assumptions C16_kb_future_rejected.
