(* Property C11 — JOSE header policy (crit, b64, disjointness, alg) is enforced fail-closed.
   Pinned statements only. *)
From Coq Require Import List ZArith Bool.
From IdV Require Import Jose.Header Jose.Policy Proofs.PolicyProofs.
Import ListNotations.
Open Scope Z_scope.

(* The validation function accepts exactly the header pairs that violate none of the rules of
   the statement (policy_ok is the literal rule list) — for ALL headers: arbitrary crit lists,
   arbitrary sets of present parameters, arbitrary custom keys. *)
Theorem C11_validate_iff_policy : forall p u, validate_jws_headers p u = true <-> policy_ok p u.
Proof. exact validate_iff_policy. Qed.

(* "Sharing a parameter name": is_disjoint holds exactly when no name is carried by both headers
   (dedicated field or custom key on either side). *)
Theorem C11_disjoint_iff_no_shared_name : forall a b,
  hdr_disjoint a b = true <-> (forall c, hdr_names a c = true -> hdr_names b c = true -> False).
Proof. exact disjoint_iff. Qed.
(* the pinned tree's comparison is refuted (custom key named like a field of the other header);
   repaired in /repo by a fix: commit *)
Theorem C11_pinned_disjoint_refuted : exists a b c,
  negb ((h_alg a && h_alg b) || (match h_b64 a, h_b64 b with Some _, Some _ => true | _, _ => false end))
  && common_disjoint a b && custom_disjoint_pinned a b = true
  /\ hdr_names a c = true /\ hdr_names b c = true.
Proof. exact disjoint_pinned_refuted. Qed.

(* Entry points: what each encoder / decoder adds to the policy. *)
Theorem C11_encoders_enforce_compact : forall p, enc_compact p = true <-> policy_ok (Some p) None.
Proof. exact enc_compact_iff. Qed.
Theorem C11_encoders_enforce_json : forall p u,
  enc_json p u = true <-> ((p <> None \/ u <> None) /\ policy_ok p u).
Proof. exact enc_json_iff. Qed.
Theorem C11_decoders_enforce : forall p u,
  dec_signature p u = true <-> ((p <> None \/ u <> None) /\ policy_ok p u).
Proof. exact dec_signature_iff. Qed.
(* general serialization: a further recipient is accepted iff its b64 equals the first one's *)
Theorem C11_general_b64_consistent : forall fb p u,
  enc_add_recipient fb p u = true <-> (extract_b64 p = fb /\ (p <> None \/ u <> None) /\ policy_ok p u).
Proof. exact add_recipient_iff. Qed.
Theorem C11_general_all_recipients_agree : forall fb rs,
  forallb (fun r => enc_add_recipient fb (fst r) (snd r)) rs = true ->
  forall r, In r rs -> extract_b64 (fst r) = fb.
Proof. exact general_b64_consistent. Qed.
(* decoding a general-serialization token: items are handed out only if ALL signatures agree on b64 (and conversely) *)
Theorem C11_general_decode_b64_consistent : forall ps, dec_general_consistent ps = true <->
  (forall p q, In p ps -> In q ps -> extract_b64 p = extract_b64 q).
Proof. exact (fun ps => conj (dec_general_all_agree ps) (dec_general_complete ps)). Qed.
(* the pinned tree decoded such a token item by item without complaint (repaired in /repo by a fix: commit) *)
Theorem C11_general_decode_pinned_refuted : exists ps p q,
  dec_general_consistent_pinned ps = true /\ In p ps /\ In q ps /\ extract_b64 p <> extract_b64 q.
Proof. exact dec_general_pinned_refuted. Qed.
Theorem C11_verify_needs_protected_alg : forall p u,
  verify_headers_ok p u = true <-> exists h, p = Some h /\ h_alg h = true.
Proof. exact verify_needs_protected_alg. Qed.
(* the `_ => Ok` arm of validate_b64 is covered only by validate_crit: a witness where b64 and
   disjointness pass although b64 is not in crit, and only the crit rule rejects *)
Theorem C11_b64_arm_depends_on_crit : exists p,
  validate_b64 (Some p) None = true /\ validate_disjoint (Some p) None = true
  /\ h_b64 p = Some false /\ ~ In N_B64 (ocrit (Some p)) /\ validate_crit (Some p) None = false.
Proof. exact b64_needs_crit_rule. Qed.

(* Non-vacuity: an accepted and a rejected pair *)
Example C11_example_accept :
  validate_jws_headers (Some {| h_alg := true; h_b64 := Some false; h_crit := Some [1]; h_common := [5]; h_custom := None |})
                       (Some {| h_alg := false; h_b64 := None; h_crit := None; h_common := [10]; h_custom := Some [100] |}) = true.
Proof. reflexivity. Qed.
Example C11_example_reject :
  validate_jws_headers (Some {| h_alg := true; h_b64 := Some false; h_crit := None; h_common := []; h_custom := None |}) None = false.
Proof. reflexivity. Qed.

Print Assumptions C11_validate_iff_policy.
Print Assumptions C11_disjoint_iff_no_shared_name.
Print Assumptions C11_pinned_disjoint_refuted.
Print Assumptions C11_encoders_enforce_compact.
Print Assumptions C11_encoders_enforce_json.
Print Assumptions C11_decoders_enforce.
Print Assumptions C11_general_b64_consistent.
Print Assumptions C11_general_all_recipients_agree.
Print Assumptions C11_verify_needs_protected_alg.
Print Assumptions C11_b64_arm_depends_on_crit.
Print Assumptions C11_general_decode_b64_consistent.
Print Assumptions C11_general_decode_pinned_refuted.
