(* C05 — No parser, decoder or validator panics on externally supplied data.
   Statements for the panic sites whose guard is logic inside the repository; the remaining entry points are covered
   by the correspondence sweep only (see DESIGN.md: partial). *)
From Coq Require Import List NArith ZArith Bool.
From IdV Require Import Lib.Outcome Core.Timestamp Cred.StatusList Doc.Doc Cred.SdJwt Iota.StateMeta Panic.Sites
  Proofs.TimestampProofs Proofs.StatusListProofs Proofs.SdJwtProofs Proofs.SitesProofs.
Import ListNotations.

Theorem C05_timestamp_parse_never_panics : forall s, ts_parse s <> Panic.
Proof. exact parse_never_panics. Qed.
Print Assumptions C05_timestamp_parse_never_panics.
Theorem C05_timestamp_accepted_formats : forall s t, ts_parse s = Ok t -> ts_to_rfc3339 t <> Panic.
Proof. exact format_never_panics_on_accepted. Qed.
Print Assumptions C05_timestamp_accepted_formats.
Theorem C05_status_list_get_never_panics : forall l i, sl_get l i <> Panic.
Proof. exact sl_get_no_panic. Qed.
Print Assumptions C05_status_list_get_never_panics.
Theorem C05_status_list_set_never_panics : forall l i v, sl_set l i v <> Panic.
Proof. exact sl_set_no_panic. Qed.
Print Assumptions C05_status_list_set_never_panics.
Theorem C05_key_binding_never_panics : forall now t holder o, validate_kb now t holder o <> Panic.
Proof. exact kb_never_panics. Qed.
Print Assumptions C05_key_binding_never_panics.
Theorem C05_integrity_accessors_never_panic :
  forall s v, integrity_parse s = Some v -> im_alg v <> Panic /\ im_digest v <> Panic /\ im_digest_bytes v <> Panic.
Proof. exact integrity_accessors_never_panic. Qed.
Print Assumptions C05_integrity_accessors_never_panic.
Theorem C05_integrity_lenient_parse_panics : exists s v, integrity_parse_lenient s = Some v /\ im_digest_bytes v = Panic.
Proof. exact lenient_parse_panics. Qed.
Print Assumptions C05_integrity_lenient_parse_panics.
