(* C05 — No parser, decoder or validator panics on externally supplied data.
   Statements for the panic sites whose guard is logic inside the repository; the remaining entry points are covered
   by the correspondence sweep only (see DESIGN.md: partial). *)
From Coq Require Import List NArith ZArith Bool.
From IdV Require Import Lib.Outcome Core.Timestamp Cred.StatusList Doc.Doc Cred.SdJwt Iota.StateMeta Panic.Sites
  Proofs.TimestampProofs Proofs.StatusListProofs Proofs.SdJwtProofs Proofs.SitesProofs
  Did.DidParse Did.IotaDid Did.DidJwk Proofs.DidUrlProofs Proofs.DidCompleteProofs Proofs.DidTotalProofs Proofs.DidSplitProofs Proofs.DidJwkProofs.
Import ListNotations.

Theorem C05_timestamp_parse_never_panics : forall s, ts_parse s <> Panic.
Proof. exact parse_never_panics. Qed.
Print Assumptions C05_timestamp_parse_never_panics.
Theorem C05_timestamp_accepted_formats : forall s t, ts_parse s = Ok t -> ts_to_rfc3339 t <> Panic.
Proof. exact format_never_panics_on_accepted. Qed.
Print Assumptions C05_timestamp_accepted_formats.
Theorem C05_status_list_get_never_panics : forall l i, sl_get l i <> Panic.
Proof. exact sl_get_no_panic. Qed.
Print Assumptions C05_status_list_get_never_panics.
Theorem C05_status_list_set_never_panics : forall l i v, sl_set l i v <> Panic.
Proof. exact sl_set_no_panic. Qed.
Print Assumptions C05_status_list_set_never_panics.
Theorem C05_key_binding_never_panics : forall now t holder o, validate_kb now t holder o <> Panic.
Proof. exact kb_never_panics. Qed.
Print Assumptions C05_key_binding_never_panics.
Theorem C05_integrity_accessors_never_panic :
  forall s v, integrity_parse s = Some v -> im_alg v <> Panic /\ im_digest v <> Panic /\ im_digest_bytes v <> Panic.
Proof. exact integrity_accessors_never_panic. Qed.
Print Assumptions C05_integrity_accessors_never_panic.
Theorem C05_integrity_lenient_parse_panics : exists s v, integrity_parse_lenient s = Some v /\ im_digest_bytes v = Panic.
Proof. exact lenient_parse_panics. Qed.
Print Assumptions C05_integrity_lenient_parse_panics.

(* DID strings.  CoreDID::parse (the repository's own splitter since fix 9f8c9e7), IotaDID::parse and DIDUrl::parse (own splitter since
   fix 6c07746) are total on EVERY byte string, and DIDUrl::join is total for EVERY receiver and segment: no text reaches the third-party
   parser's percent branch any more except a join SEGMENT, whose offsets provably stay inside it (C10_url_pct_panics_refuted is the former route). *)
Theorem C05_core_did_parse_never_panics : forall s, core_did_parse s <> Panic.
Proof. exact core_did_parse_total. Qed.
Print Assumptions C05_core_did_parse_never_panics.
Theorem C05_iota_did_parse_never_panics : forall s, iota_parse s <> Panic.
Proof. exact iota_parse_total. Qed.
Print Assumptions C05_iota_did_parse_never_panics.
Theorem C05_did_url_parse_never_panics : forall s, did_url_split_parse s <> Panic.
Proof. exact did_url_split_total. Qed.
Print Assumptions C05_did_url_parse_never_panics.
Theorem C05_did_url_join_never_panics : forall u seg, did_url_join u seg <> Panic.
Proof. exact join_total. Qed.
Print Assumptions C05_did_url_join_never_panics.

(* MethodDigest::unpack (bounds-checked slicing of a packed format): never panics; pack / unpack round trip; only packed digests are accepted;
   without the length test the indexing panics *)
Theorem C05_method_digest_unpack_never_panics : forall bytes, md_unpack true bytes <> Panic.
Proof. exact md_unpack_never_panics. Qed.
Print Assumptions C05_method_digest_unpack_never_panics.
Theorem C05_method_digest_roundtrip : forall d, md_version d = 0%N -> (md_value d < 18446744073709551616)%N -> md_unpack true (md_pack d) = Ok d.
Proof. exact md_unpack_pack. Qed.
Print Assumptions C05_method_digest_roundtrip.
Theorem C05_method_digest_accepts_only_packed : forall bytes d, md_unpack true bytes = Ok d -> Forall (fun b => (b < 256)%N) bytes ->
  md_version d = 0%N /\ length bytes = 9%nat /\ (md_value d < 18446744073709551616)%N.
Proof. exact md_unpack_accepts_only_packed. Qed.
Print Assumptions C05_method_digest_accepts_only_packed.
Theorem C05_method_digest_unguarded_panics : md_unpack false [] = Panic /\ md_unpack false [0; 1; 2]%N = Panic.
Proof. exact md_unpack_unguarded_panics. Qed.
Print Assumptions C05_method_digest_unguarded_panics.

(* DIDJwk::jwk() (`expect("did:jwk encodes a valid JWK")`, did_jwk.rs): every construction route - parse / FromStr / TryFrom<&str>,
   and serde through TryFrom<CoreDID> - hands out only values on which it succeeds, whatever the JWK decoder is; a deserialiser
   that skipped TryFrom<CoreDID> would hand out a value on which it panics *)
Theorem C05_didjwk_accessor_never_panics : forall (J : Type) (dj : list N -> option J) s v,
  (didjwk_parse J dj s = Ok v \/ didjwk_serde J dj s = Ok v) -> didjwk_jwk J dj v <> Panic.
Proof. exact didjwk_accessor_never_panics. Qed.
Print Assumptions C05_didjwk_accessor_never_panics.
Theorem C05_didjwk_transparent_serde_panics : exists s v, didjwk_serde_transparent s = Ok v /\ didjwk_jwk unit (fun _ => None) v = Panic.
Proof. exact didjwk_transparent_serde_panics. Qed.
Print Assumptions C05_didjwk_transparent_serde_panics.
