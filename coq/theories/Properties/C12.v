(* Property C12 — StatusList2021 behaves as an independent-bit vector with one-way revocation.
   Pinned statements only; every proof is `exact <lemma>`. *)
From Coq Require Import List NArith Bool.
From IdV Require Import Lib.Base64 Cred.Bitmap Lib.Outcome Cred.StatusList Proofs.StatusListProofs.
Import ListNotations.
Open Scope N_scope.

(* Per-byte update: all 256 x 8 x 2 x 8 (byte, offset, written value, read offset) rows.
   Finite domain; proved by computation and lifted, the bounds are part of the statement. *)
Theorem C12_byte_table : forall b o v o', b < 256 -> o < 8 -> o' < 8 ->
  sl_get_byte (sl_set_byte b o v) o' = (if o' =? o then v else sl_get_byte b o')
  /\ sl_set_byte b o v < 256.
Proof. exact byte_table_spec. Qed.

(* Reading returns the last value written; other entries untouched — all lists, all indices. *)
Theorem C12_get_set_same : forall l i v l',
  Forall (fun b => b < 256) l -> sl_set l i v = Ok l' -> sl_get l' i = Ok v.
Proof. exact sl_get_set_same. Qed.
Theorem C12_get_set_other : forall l i v l' j,
  Forall (fun b => b < 256) l -> j <> i -> sl_set l i v = Ok l' -> sl_get l' j = sl_get l j.
Proof. exact sl_get_set_other. Qed.
Theorem C12_out_of_range_err : forall l i v, sl_len l <= i ->
  sl_get l i = Err SlIndexOutOfBounds /\ sl_set l i v = Err SlIndexOutOfBounds.
Proof. exact sl_out_of_range. Qed.
Theorem C12_in_range_ok : forall l i v, i < sl_len l ->
  (exists b, sl_get l i = Ok b) /\ (exists l', sl_set l i v = Ok l').
Proof. exact sl_in_range. Qed.
Theorem C12_never_panics : forall l i v, sl_get l i <> Panic /\ sl_set l i v <> Panic.
Proof. exact (fun l i v => conj (sl_get_no_panic l i) (sl_set_no_panic l i v)). Qed.
Theorem C12_len_fixed : forall l i v l', sl_set l i v = Ok l' -> length l' = length l.
Proof. exact sl_set_len. Qed.
Theorem C12_new_spec : forall n,
  match sl_new n with
  | Ok l => SL_MIN <= n /\ n <= sl_len l < n + 8 /\ Forall (fun b => b < 256) l
            /\ (forall i, i < sl_len l -> sl_get l i = Ok false)
  | Err e => n < SL_MIN /\ e = SlInvalidListSize
  | Panic => False
  end.
Proof. exact sl_new_spec. Qed.
(* Encoded form decodes to the identical list: the Base64 layer is modelled (standard alphabet, no padding) and proved to round-trip;
   gzip is the one assumed codec (it has a left inverse and yields bytes) and is exercised by the correspondence run. *)
Theorem C12_encode_roundtrip : forall (gz : list N -> list N) (gunzip : list N -> option (list N)),
  (forall x, gunzip (gz x) = Some x) -> (forall x, Forall (fun b => b < 256) (gz x)) -> forall l, sl_decode gunzip (sl_encode gz l) = Ok l.
Proof. exact encode_roundtrip. Qed.
Theorem C12_decode_rejects_non_base64 : forall (gunzip : list N -> option (list N)) s, b64s_decode s = None -> sl_decode gunzip s = Err SlInvalidEncoding.
Proof. exact decode_rejects. Qed.

(* One-way revocation over every write history; suspension reversible. *)
Theorem C12_revocation_monotone : forall ops c i,
  Forall (fun b => b < 256) (sc_list c) -> sc_purpose c = PRevocation ->
  sl_entry c i = Ok StRevoked -> sl_entry (sl_run ops c) i = Ok StRevoked.
Proof. exact revocation_monotone. Qed.
(* ... and through StatusList2021Credential::update, whatever the closure does with refusals: a best-effort batch that swallows every
   refusal, or a batch that propagates the first one (the working copy is then discarded) *)
Theorem C12_update_revocation_monotone : forall c ops i,
  Forall (fun b => b < 256) (sc_list c) -> sc_purpose c = PRevocation -> sl_entry c i = Ok StRevoked ->
  sl_entry (sl_update_best_effort c ops) i = Ok StRevoked /\ sl_entry (fst (sl_update_all c ops)) i = Ok StRevoked.
Proof. exact update_revocation_monotone. Qed.
Theorem C12_update_all_or_nothing : forall c ops,
  match sl_update_all c ops with
  | (c', Ok _) => c' = sl_run ops c /\ sl_try_all ops c = Ok c'
  | (c', Err _) => c' = c
  | (c', Panic) => c' = c
  end.
Proof. exact update_all_spec. Qed.
(* a set_entry that writes before it checks is refuted (the refusal is reported but the bit is already cleared in the working copy) *)
Theorem C12_write_before_check_refuted : exists c i,
  Forall (fun b => b < 256) (sc_list c) /\ sc_purpose c = PRevocation /\ sl_entry c i = Ok StRevoked
  /\ snd (sl_set_entry_write_first c i false) = Err SlUnreversible
  /\ sl_entry (fst (sl_set_entry_write_first c i false)) i = Ok StValid.
Proof. exact write_first_refuted. Qed.
Theorem C12_revocation_refused : forall c i, sc_purpose c = PRevocation ->
  sl_entry c i = Ok StRevoked -> sl_set_entry c i false = Err SlUnreversible.
Proof. exact revocation_refused. Qed.
Theorem C12_suspension_clearable : forall c i v,
  Forall (fun b => b < 256) (sc_list c) -> sc_purpose c = PSuspension -> i < sl_len (sc_list c) ->
  exists c', sl_set_entry c i v = Ok c' /\ sl_entry c' i = Ok (if v then StSuspended else StValid).
Proof. exact suspension_clearable. Qed.
Theorem C12_history_keeps_length_and_purpose : forall ops c, Forall (fun b => b < 256) (sc_list c) ->
  length (sc_list (sl_run ops c)) = length (sc_list c) /\ sc_purpose (sl_run ops c) = sc_purpose c.
Proof. exact run_len_fixed. Qed.

(* Reported status: revoked / suspended exactly when the entry is set in a list of the matching purpose. *)
Theorem C12_status_iff_set : forall c mode entry,
  (sl_check_status c mode entry = VRevoked \/ sl_check_status c mode entry = VSuspended) <->
  (mode <> ChkSkipAll /\ exists idm p i, entry = Some (true, idm, p, i) /\ idm = true /\ p = sc_purpose c
                                  /\ sl_get (sc_list c) i = Ok true).
Proof. exact check_status_iff. Qed.

(* The pinned tree's clear mask (0b0111_1111 >> o) is refuted: finding F1, fixed in /repo. *)
Theorem C12_pinned_mask_refuted :
  sl_get_byte (sl_set_byte_pinned 192 1 false) 0 = false /\ sl_get_byte 192 0 = true.
Proof. exact byte_pinned_witness. Qed.

(* Non-vacuity *)
Example C12_example : exists l', sl_set [192; 0] 1 false = Ok l' /\ sl_get l' 0 = Ok true /\ sl_get l' 1 = Ok false.
Proof. eexists. vm_compute. repeat split. Qed.

Print Assumptions C12_byte_table.
Print Assumptions C12_get_set_same.
Print Assumptions C12_get_set_other.
Print Assumptions C12_out_of_range_err.
Print Assumptions C12_in_range_ok.
Print Assumptions C12_never_panics.
Print Assumptions C12_len_fixed.
Print Assumptions C12_new_spec.
Print Assumptions C12_encode_roundtrip.
Print Assumptions C12_decode_rejects_non_base64.
Print Assumptions C12_revocation_monotone.
Print Assumptions C12_revocation_refused.
Print Assumptions C12_suspension_clearable.
Print Assumptions C12_history_keeps_length_and_purpose.
Print Assumptions C12_status_iff_set.
Print Assumptions C12_pinned_mask_refuted.
Print Assumptions C12_update_revocation_monotone.
Print Assumptions C12_update_all_or_nothing.
Print Assumptions C12_write_before_check_refuted.
