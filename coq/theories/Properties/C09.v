(* Property C09 — storage-backed method generation / purge is all-or-nothing under storage faults.
   Quantified over EVERY fault script (list bool, indexed by storage-call occurrence), every document
   and every store content.  Pinned statements only. *)
From Coq Require Import List ZArith Bool.
From IdV Require Import Doc.Doc Storage.GenPurge Proofs.GenPurgeProofs.
Import ListNotations.
Open Scope Z_scope.

Theorem C09_generate_atomic : forall st k ou sc fs r st', ~ In k (s_keys st) ->
  generate true st k ou sc fs = (r, st') ->
  match r with
  | SOk => (exists u d', ou = Some u /\ insert_method (s_doc st) {| m_id := u; m_data := k |} sc = inl d' /\ s_doc st' = d')
           /\ In k (s_keys st') /\ kids_get (s_kids st ++ [(k, k)]) k = kids_get (s_kids st') k
  | SPlain => same_obs st' st
  | SUndoFailed => True
  end.
Proof. exact generate_atomic. Qed.

Theorem C09_purge_atomic : forall st u fs r st', purge st u fs = (r, st') ->
  match r with
  | SOk => exists m sc k, snd (remove_method (s_doc st) u) = Some (m, sc) /\ s_doc st' = fst (remove_method (s_doc st) u)
           /\ kids_get (s_kids st) (m_data m) = Some k /\ ~ In k (s_keys st') /\ kids_get (s_kids st') (m_data m) = None
           /\ (forall k', k' <> k -> (In k' (s_keys st') <-> In k' (s_keys st)))
           /\ (forall dg, dg <> m_data m -> kids_get (s_kids st') dg = kids_get (s_kids st) dg)
  | SPlain => same_obs st' st
  | SUndoFailed => True
  end.
Proof. exact purge_atomic. Qed.

(* no fragment given and a store whose generated JWK carries no kid: the method cannot be built; never Ok, the key is removed again *)
Theorem C09_generate_without_id : forall st k sc fs r st', ~ In k (s_keys st) -> generate true st k None sc fs = (r, st') ->
  (r = SPlain /\ same_obs st' st) \/ r = SUndoFailed.
Proof. exact generate_no_id. Qed.
Print Assumptions C09_generate_without_id.

(* the rollback by remove_method (instead of restoring the saved document) is refuted *)
Theorem C09_generate_rollback_refuted : exists st k u sc fs st',
  ~ In k (s_keys st) /\ generate false st k (Some u) sc fs = (SPlain, st') /\ s_doc st' <> s_doc st.
Proof. exact generate_rollback_refuted. Qed.

Print Assumptions C09_generate_atomic.
Print Assumptions C09_purge_atomic.
Print Assumptions C09_generate_rollback_refuted.

(* an explicit undo failure needs a storage fault: on a fault-free script both operations end in Ok or in
   a plain error with the state unchanged (theorems above); and generate SUCCEEDS on a fault-free script
   whenever the document accepts the method and the digest is free - so Ok is reachable and the
   atomicity theorems are not vacuous - for every state, key, id, scope and script *)
Theorem C09_generate_undo_failed_needs_fault : forall sn st k ou sc fs st',
  generate sn st k ou sc fs = (SUndoFailed, st') -> In true fs.
Proof. exact generate_undo_failed_needs_fault. Qed.
Theorem C09_purge_undo_failed_needs_fault : forall st u fs st',
  purge st u fs = (SUndoFailed, st') -> In true fs.
Proof. exact purge_undo_failed_needs_fault. Qed.
Theorem C09_generate_fault_free_succeeds : forall sn st k u sc fs d',
  (forall b, In b fs -> b = false) ->
  insert_method (s_doc st) {| m_id := u; m_data := k |} sc = inl d' -> kids_get (s_kids st) k = None ->
  generate sn st k (Some u) sc fs = (SOk, {| s_doc := d'; s_keys := s_keys st ++ [k]; s_kids := s_kids st ++ [(k, k)] |}).
Proof. exact generate_fault_free_succeeds. Qed.
Print Assumptions C09_generate_undo_failed_needs_fault.
Print Assumptions C09_purge_undo_failed_needs_fault.
Print Assumptions C09_generate_fault_free_succeeds.
