(* C14 — IOTA state-metadata packing round-trips and rewrites only self-references. Statements only. *)
From Coq Require Import List ZArith Bool.
From IdV Require Import Doc.Doc Iota.StateMeta Proofs.StateMetaProofs.
Import ListNotations.
Open Scope Z_scope.

(* pack; unpack for the same DID: the document and its metadata (address fields cleared), whatever follows the frame *)
Theorem C14_same_did_roundtrip :
  forall (v : Z -> bool) ser de, (forall x, de (ser x) = Some x) ->
  forall s m fr, swf v s = true -> no_placeholder s = true -> pack_full ser (s, m) = Some fr ->
  forall tail, unpack_full v de (sd_id s) (fr ++ tail) = inl (s, clear_addr m).
Proof. exact full_same_did. Qed.
Print Assumptions C14_same_did_roundtrip.

(* unpack for another DID that occurs in no foreign identifier: exactly the renaming self -> target *)
Theorem C14_rebase_exact :
  forall (v : Z -> bool) ser de, (forall x, de (ser x) = Some x) ->
  forall s m fr, swf v s = true -> no_placeholder s = true -> pack_full ser (s, m) = Some fr ->
  forall tgt tail, target_fresh tgt s = true ->
  unpack_full v de tgt (fr ++ tail) = inl (rename (rebase_f (sd_id s) tgt) s, clear_addr m).
Proof. exact full_rebase. Qed.
Print Assumptions C14_rebase_exact.

(* for EVERY target: an accepted unpack is exactly the renaming, never a silently altered document *)
Theorem C14_rebase_sound :
  forall (v : Z -> bool) ser de, (forall x, de (ser x) = Some x) ->
  forall s m fr, swf v s = true -> no_placeholder s = true -> pack_full ser (s, m) = Some fr ->
  forall tgt tail r m', unpack_full v de tgt (fr ++ tail) = inl (r, m') ->
  r = rename (rebase_f (sd_id s) tgt) s /\ m' = clear_addr m.
Proof. exact full_rebase_sound. Qed.
Print Assumptions C14_rebase_sound.

(* what the renaming is: every DID inside an identifier, and every controller, goes through f; nothing else changes *)
Theorem C14_rename_touches_only_dids :
  forall f s,
  sd_id (rename f s) = f (sd_id s)
  /\ (forall c, In c (sd_ctrl (rename f s)) <-> exists c0, In c0 (sd_ctrl s) /\ c = f c0)
  /\ sd_vm (rename f s) = map (mmap f) (sd_vm s)
  /\ sd_rels (rename f s) = map (map (rmap f)) (sd_rels s)
  /\ sd_svc (rename f s) = map (svmap f) (sd_svc s)
  /\ sd_aka (rename f s) = sd_aka s /\ sd_props (rename f s) = sd_props s.
Proof. exact rename_spec. Qed.
Print Assumptions C14_rename_touches_only_dids.

Theorem C14_frame_roundtrip_tail_ignored :
  forall body, Z.of_nat (length body) < 65536 -> exists fr, frame body = Some fr /\ forall tail, unframe (fr ++ tail) = inl body.
Proof. exact frame_unframe. Qed.
Print Assumptions C14_frame_roundtrip_tail_ignored.

Theorem C14_frame_rejects :
  forall data body, unframe data = inl body ->
  exists lo hi rest, data = 68 :: 73 :: 68 :: 1 :: 0 :: lo :: hi :: rest
    /\ (Z.to_nat (lo + 256 * hi) <= length rest)%nat /\ body = firstn (Z.to_nat (lo + 256 * hi)) rest.
Proof. exact unframe_accepts_only. Qed.
Print Assumptions C14_frame_rejects.

Theorem C14_too_large_fails :
  forall ser x, pack_full ser x = None <-> 65536 <= Z.of_nat (length (ser (to_state (fst x), clear_addr (snd x)))).
Proof. exact pack_full_none. Qed.
Print Assumptions C14_too_large_fails.

(* the pinned tree returned a document with a foreign method dropped (repaired; see KNOWN_FINDINGS fixed: C14) *)
Theorem C14_pinned_unpack_refuted :
  swf ex_valid ex_doc = true /\ no_placeholder ex_doc = true /\
  exists r, into_iota_pinned ex_valid 2 (to_state ex_doc) = inl r /\ r <> rename (rebase_f 1 2) ex_doc /\ length (sd_vm r) = 1%nat.
Proof. exact pinned_unpack_refuted. Qed.
Print Assumptions C14_pinned_unpack_refuted.
