(* RFC 7638 thumbprint at byte level: Jwk::thumbprint_hash_input (key.rs: a format! string over the required members, lexicographic,
   values inserted verbatim), Jwk::thumbprint_sha256 (SHA-256 of it) and thumbprint_sha256_b64 (unpadded base64url). *)
From Coq Require Import List NArith Bool.
From IdV Require Import Lib.Base64 Lib.Sha256 Jose.Jwk.
Import ListNotations.
Open Scope N_scope.

Definition n_crv : list N := [99; 114; 118].
Definition n_kty : list N := [107; 116; 121].
Definition n_x : list N := [120].
Definition n_y : list N := [121].
Definition n_e : list N := [101].
Definition n_n : list N := [110].
Definition n_k : list N := [107].
Definition kty_name (t : jkty) : list N :=
  match t with KEc => [69; 67] | KRsa => [82; 83; 65] | KOct => [111; 99; 116] | KOkp => [79; 75; 80] end.
(* the required members in the order the format string writes them (kty among them) *)
Definition thumb_names (family : jkty) : list (list N) :=
  match family with
  | KEc => [n_crv; n_kty; n_x; n_y]
  | KRsa => [n_e; n_kty; n_n]
  | KOct => [n_k; n_kty]
  | KOkp => [n_crv; n_kty; n_x]
  end.
Definition member (n v : list N) : list N := [34] ++ n ++ [34; 58; 34] ++ v ++ [34].
Fixpoint join_comma (l : list (list N)) : list N :=
  match l with [] => [] | [x] => x | x :: r => x ++ [44] ++ join_comma r end.
(* kty: the DECLARED key type's name; family: the parameter family; get: the value of a parameter by name *)
Definition thumb_text (kty family : jkty) (get : list N -> list N) : list N :=
  [123] ++ join_comma (map (fun n => member n (if list_eq_dec N.eq_dec n n_kty then kty_name kty else get n)) (thumb_names family)) ++ [125].
Definition thumbprint (kty family : jkty) (get : list N -> list N) : list N := sha256 (thumb_text kty family get).
Definition thumbprint_b64 (kty family : jkty) (get : list N -> list N) : list N := b64u_encode (thumbprint kty family get).
