(* Model of the JWS decoder (jws/decoder.rs) and of the three encoders (jws/encoding/*.rs,
   jws/charset.rs) over byte lists.  Not modelled (oracles / Section variables):
     parse_header : JSON bytes -> JwsHeader (serde),  ser_header : JwsHeader -> JSON bytes,
     utf8 : bytes -> bool (core::str::from_utf8),  the verifier V.
   The JSON envelope of the flattened / general serialisations is a record (the JSON text itself
   is glue exercised by the correspondence run). *)
From Coq Require Import List NArith ZArith Bool.
From IdV Require Import Lib.Outcome Lib.Base64 Jose.Header Jose.Policy.
Import ListNotations.
Open Scope N_scope.

Inductive jws_err := JErr.

Section Jws.
  Variable H : Type.                         (* JwsHeader values *)
  Variable hview : H -> hdr.                 (* what the header policy looks at *)
  Variable halg : H -> option Z.             (* alg value *)
  Variable parse_header : list N -> option H.
  Variable ser_header : H -> list N.
  Variable utf8 : list N -> bool.

  Definition hb64 (h : H) : option bool := h_b64 (hview h).
  Definition oview (o : option H) : option hdr := match o with Some h => Some (hview h) | None => None end.

  (* jws_bytes.split(|b| b == '.') *)
  Fixpoint split_dot (l : list N) : list (list N) :=
    match l with
    | [] => [[]]
    | c :: r => if c =? 46 then [] :: split_dot r
                else match split_dot r with s :: ss => (c :: s) :: ss | [] => [[c]] end
    end.

  Definition nonempty (o : option (list N)) : option (list N) :=
    match o with Some [] => None | _ => o end.
  (* Decoder::expand_payload *)
  Definition expand_payload (det parsed : option (list N)) : option (list N) :=
    match det, nonempty parsed with
    | Some p, None => Some p
    | None, Some p => Some p
    | _, _ => None
    end.

  Record item := { it_protected : option H; it_unprotected : option H; it_si : list N;
                   it_sig : list N; it_claims : list N }.

  (* Decoder::decode_signature *)
  Definition decode_signature (payload : list N) (uh : option H) (p : option (list N)) (sg : list N)
    : outcome item jws_err :=
    let ph_res : option (option H) :=
      match p with
      | None => Some None
      | Some pb => match b64u_decode pb with
                   | Some js => match parse_header js with Some h => Some (Some h) | None => None end
                   | None => None end
      end in
    match ph_res with
    | None => Err JErr
    | Some ph =>
        if negb (validate_jws_headers (oview ph) (oview uh)) then Err JErr else
        let si := (match p with Some pb => pb | None => [] end) ++ [46] ++ payload in
        match b64u_decode sg with
        | None => Err JErr
        | Some dsig =>
            let b64 := match ph with Some h => match hb64 h with Some b => b | None => true end | None => true end in
            match (if b64 then b64u_decode payload else Some payload) with
            | None => Err JErr
            | Some claims =>
                match ph, uh with
                | None, None => Err JErr
                | _, _ => Ok {| it_protected := ph; it_unprotected := uh; it_si := si; it_sig := dsig; it_claims := claims |}
                end
            end
        end
    end.

  Definition decode_compact (tok : list N) (det : option (list N)) : outcome item jws_err :=
    match split_dot tok with
    | [p; e; s] =>
        match expand_payload det (Some e) with
        | Some payload => decode_signature payload None (Some p) s
        | None => Err JErr
        end
    | _ => Err JErr
    end.

  (* JSON envelope of one signature *)
  Record envelope := { e_payload : option (list N); e_protected : option (list N);
                       e_header : option H; e_signature : list N }.
  Definition decode_envelope (e : envelope) (det : option (list N)) : outcome item jws_err :=
    match expand_payload det (e_payload e) with
    | Some payload => decode_signature payload (e_header e) (e_protected e) (e_signature e)
    | None => Err JErr
    end.

  (* Decoder::decode_general_serialization: one payload, the b64 values of all signatures whose protected header decodes must agree
     (RFC 7797 section 3; decode-side check added by a fix: commit), then every signature is decoded on its own *)
  Definition decode_protected (p : option (list N)) : option (option H) :=
    match p with
    | None => Some None
    | Some pb => match b64u_decode pb with
                 | Some js => match parse_header js with Some h => Some (Some h) | None => None end
                 | None => None end
    end.
  Definition general_b64_values (es : list envelope) : list bool :=
    flat_map (fun e => match decode_protected (e_protected e) with Some ph => [extract_b64 (oview ph)] | None => [] end) es.
  Definition all_same (l : list bool) : bool :=
    match l with [] => true | b0 :: r => forallb (Bool.eqb b0) r end.
  Definition decode_general (pl : option (list N)) (es : list envelope) (det : option (list N))
    : outcome (list (outcome item jws_err)) jws_err :=
    match expand_payload det pl with
    | None => Err JErr
    | Some payload =>
        if negb (all_same (general_b64_values es)) then Err JErr
        else Ok (map (fun e => decode_signature payload (e_header e) (e_protected e) (e_signature e)) es)
    end.

  (* JwsValidationItem::verify: key_alg = alg pinned on the key *)
  Variable V : Z -> list N -> list N -> bool.
  Definition verify (it : item) (key_alg : option Z) : outcome item jws_err :=
    match it_protected it with
    | None => Err JErr
    | Some h =>
        match halg h with
        | None => Err JErr
        | Some a =>
            if negb (match key_alg with Some k => (k =? a)%Z | None => true end) then Err JErr
            else if V a (it_si it) (it_sig it) then Ok it else Err JErr
        end
    end.

  (* ---------- encoders ---------- *)
  Definition encode_if_b64 (payload : list N) (p : option H) : list N :=
    if extract_b64 (oview p) then b64u_encode payload else payload.
  (* CharSet::validate: 0 = Default, 1 = UrlSafe *)
  Definition charset_ok (cs : N) (payload : list N) : bool :=
    forallb (fun c => negb (c =? 46) &&
      (if cs =? 0 then ((32 <=? c) && (c <=? 45)) || ((47 <=? c) && (c <=? 126))
       else ((97 <=? c) && (c <=? 122)) || ((65 <=? c) && (c <=? 90)) || ((48 <=? c) && (c <=? 57)) || (c =? 45) || (c =? 95) || (c =? 126))) payload.

  Record compact_enc := { ce_protected : list N; ce_payload : option (list N); ce_si : list N }.
  (* CompactJwsEncoder::new_with_options; detached = None, else Some charset *)
  Definition enc_compact_new (payload : list N) (h : H) (nondetached : option N) : outcome compact_enc jws_err :=
    if negb (validate_jws_headers (Some (hview h)) None) then Err JErr else
    let ph := b64u_encode (ser_header h) in
    let me := encode_if_b64 payload (Some h) in
    let si := ph ++ [46] ++ me in
    match nondetached with
    | None => Ok {| ce_protected := ph; ce_payload := None; ce_si := si |}
    | Some cs =>
        if extract_b64 (Some (hview h)) then Ok {| ce_protected := ph; ce_payload := Some me; ce_si := si |}
        else if charset_ok cs payload then Ok {| ce_protected := ph; ce_payload := Some payload; ce_si := si |}
        else Err JErr
    end.
  Definition compact_into_jws (e : compact_enc) (sg : list N) : list N :=
    ce_protected e ++ [46] ++ (match ce_payload e with Some p => p | None => [] end) ++ [46] ++ b64u_encode sg.

  (* FlattenedJwsEncoder / one recipient of GeneralJwsEncoder: envelope pieces and signing input *)
  Record json_enc := { je_payload : option (list N); je_protected : option (list N); je_header : option H; je_si : list N }.
  Definition enc_flattened_new (payload : list N) (p u : option H) (detached : bool) : outcome json_enc jws_err :=
    if negb (enc_json (oview p) (oview u)) then Err JErr else
    let me := encode_if_b64 payload p in
    let ph := match p with Some h => Some (b64u_encode (ser_header h)) | None => None end in
    let si := (match ph with Some x => x | None => [] end) ++ [46] ++ me in
    if detached then Ok {| je_payload := None; je_protected := ph; je_header := u; je_si := si |}
    else if extract_b64 (oview p) then Ok {| je_payload := Some me; je_protected := ph; je_header := u; je_si := si |}
    else if utf8 payload then Ok {| je_payload := Some payload; je_protected := ph; je_header := u; je_si := si |}
    else Err JErr.
  Definition json_envelope (e : json_enc) (sg : list N) : envelope :=
    {| e_payload := je_payload e; e_protected := je_protected e; e_header := je_header e; e_signature := b64u_encode sg |}.

  (* GeneralJwsEncoder: recipients (p, u, signature); the first fixes b64 and the payload encoding *)
  Definition enc_general (payload : list N) (rs : list (option H * option H * list N)) (detached : bool)
    : outcome (option (list N) * list envelope) jws_err :=
    match rs with
    | [] => Err JErr
    | (p0, u0, _) :: _ =>
        let fb := extract_b64 (oview p0) in
        let me := encode_if_b64 payload p0 in
        if negb (forallb (fun r => let '(p, u, _) := r in enc_add_recipient fb (oview p) (oview u)) rs) then Err JErr else
        (* from_utf8 of the partially processed payload: base64url text is ASCII, so only a raw payload can fail *)
        if negb detached && negb (fb || utf8 payload) then Err JErr else
        Ok (if detached then None else Some me,
            map (fun r => let '(p, u, sg) := r in
                   {| e_payload := None;
                      e_protected := match p with Some h => Some (b64u_encode (ser_header h)) | None => None end;
                      e_header := u; e_signature := b64u_encode sg |}) rs)
    end.
  Definition general_si (payload : list N) (p0 p : option H) : list N :=
    (match p with Some h => b64u_encode (ser_header h) | None => [] end) ++ [46] ++ encode_if_b64 payload p0.
End Jws.
