(* Model of JwsHeader / JwtHeader as far as the header policy looks at them (jws/header.rs,
   jwt/header.rs): which parameters are present, the value of b64, the crit list, custom keys.
   Parameter names are numbered (table shared with the harness):
     0 alg  1 b64  2 crit  3 jku  4 jwk  5 kid  6 x5u  7 x5c  8 x5t  9 x5t#S256  10 typ  11 cty
     12 url 13 nonce | 14 enc 15 zip 16 epk 17 apu 18 apv 19 iv 20 tag 21 p2s 22 p2c 23 x5t#s256
     | >= 24: names the library knows nothing about (exp, x-unknown, ...) *)
From Coq Require Import List ZArith Bool.
Import ListNotations.
Open Scope Z_scope.

Definition N_ALG := 0. Definition N_B64 := 1. Definition N_CRIT := 2.

Record hdr := {
  h_alg : bool;                     (* alg present *)
  h_b64 : option bool;
  h_crit : option (list Z);
  h_common : list Z;                (* which of the fields 3..13 are present *)
  h_custom : option (list Z);       (* keys of the custom map *)
}.

Definition mem (x : Z) (l : list Z) : bool := existsb (Z.eqb x) l.

(* JwtHeader::has — the twelve common fields (crit among them) *)
Definition common_has (h : hdr) (c : Z) : bool :=
  if c =? N_CRIT then match h_crit h with Some _ => true | None => false end
  else if (3 <=? c) && (c <=? 13) then mem c (h_common h)
  else false.

(* JwsHeader::has *)
Definition hdr_has (h : hdr) (c : Z) : bool :=
  if c =? N_ALG then h_alg h
  else if c =? N_B64 then match h_b64 h with Some _ => true | None => false end
  else common_has h c || match h_custom h with Some ks => mem c ks | None => false end.

(* JwtHeader::is_disjoint, field by field *)
Definition common_disjoint (a b : hdr) : bool :=
  negb (existsb (fun c => mem c (h_common a) && mem c (h_common b)) [3;4;5;6;7;8;9;10;11;12;13])
  && negb (match h_crit a, h_crit b with Some _, Some _ => true | _, _ => false end).

(* every parameter name a header carries: what `has` reports, or a key of the custom map
   (`has("alg")` / `has("b64")` look at the dedicated fields only) *)
Definition cmem (h : hdr) (c : Z) : bool := match h_custom h with Some ks => mem c ks | None => false end.
Definition hdr_names (h : hdr) (c : Z) : bool := hdr_has h c || cmem h c.

(* is_custom_disjoint after the `fix:` commit: no custom key of one header is a parameter
   (dedicated field or custom key) of the other *)
Definition custom_clash (x y : hdr) : bool :=
  match h_custom x with Some ks => existsb (hdr_names y) ks | None => false end.
Definition custom_disjoint (a b : hdr) : bool := negb (custom_clash a b) && negb (custom_clash b a).
(* the pinned tree compared the two custom maps with each other only (finding F19b) *)
Definition custom_disjoint_pinned (a b : hdr) : bool :=
  match h_custom a, h_custom b with
  | Some ka, Some kb => negb (existsb (fun k => mem k kb) ka)
  | _, _ => true
  end.

(* JwsHeader::is_disjoint *)
Definition hdr_disjoint (a b : hdr) : bool :=
  negb ((h_alg a && h_alg b)
        || (match h_b64 a, h_b64 b with Some _, Some _ => true | _, _ => false end))
  && common_disjoint a b && custom_disjoint a b.

(* PREDEFINED of jwu/serde.rs (note: it spells x5t#s256 in lower case = name 23, and lists
   neither url, nonce nor b64) *)
Definition predefined (c : Z) : bool :=
  mem c [0; 3; 4; 5; 6; 7; 8; 23; 10; 11; 2; 14; 15; 16; 17; 18; 19; 20; 21; 22].
(* PERMITTED_CRITS *)
Definition permitted (c : Z) : bool := c =? N_B64.
