(* Model of identity_jose::jwk::{Jwk, JwkParams, ...} (key.rs, key_params.rs) after the two
   `fix:` commits (to_public idempotent; kty/parameter-family check on deserialisation).
   Member values are opaque integers.  JSON member names are numbered (shared with the harness):
     1 crv 2 x 3 y 4 d 5 n 6 e 7 p 8 q 9 dp 10 dq 11 qi 12 oth 13 k
     20 use 21 key_ops 22 alg 23 kid 24 x5u 25 x5c 26 x5t 27 x5t#S256   100 kty *)
From Coq Require Import List ZArith Bool.
Import ListNotations.
Open Scope Z_scope.

Inductive jkty := KEc | KRsa | KOct | KOkp.
Definition jkty_eqb (a b : jkty) : bool :=
  match a, b with KEc, KEc | KRsa, KRsa | KOct, KOct | KOkp, KOkp => true | _, _ => false end.
Definition jkty_code (k : jkty) : Z := match k with KEc => 0 | KRsa => 1 | KOct => 2 | KOkp => 3 end.

Inductive jop := OSign | OVerify | OEncrypt | ODecrypt | OWrap | OUnwrap | ODeriveKey | ODeriveBits | OProofGen | OProofVer.
Definition jop_invert (o : jop) : jop :=
  match o with
  | OSign => OVerify | OVerify => OSign | OEncrypt => ODecrypt | ODecrypt => OEncrypt
  | OWrap => OUnwrap | OUnwrap => OWrap | ODeriveKey => ODeriveKey | ODeriveBits => ODeriveBits
  | OProofGen => OProofVer | OProofVer => OProofGen end.

Inductive jparams :=
| PEc (crv x y : Z) (d : option Z)
| PRsa (n e : Z) (d p q dp dq qi oth : option Z)
| POct (k : Z)
| POkp (crv x : Z) (d : option Z).

Record jwk := {
  j_kty : jkty; j_use : option Z; j_ops : option (list jop); j_alg : option Z; j_kid : option Z;
  j_x5u : option Z; j_x5c : option Z; j_x5t : option Z; j_x5ts : option Z; j_params : jparams }.

Definition params_kty (p : jparams) : jkty :=
  match p with PEc _ _ _ _ => KEc | PRsa _ _ _ _ _ _ _ _ _ => KRsa | POct _ => KOct | POkp _ _ _ => KOkp end.
Definition params_new (k : jkty) : jparams :=
  match k with KEc => PEc 0 0 0 None | KRsa => PRsa 0 0 None None None None None None None | KOct => POct 0 | KOkp => POkp 0 0 None end.
Definition params_to_public (p : jparams) : option jparams :=
  match p with
  | PEc c x y _ => Some (PEc c x y None)
  | PRsa n e _ _ _ _ _ _ _ => Some (PRsa n e None None None None None None None)
  | POct _ => None
  | POkp c x _ => Some (POkp c x None)
  end.
Definition isn {A} (o : option A) : bool := match o with None => true | Some _ => false end.
Definition params_is_public (p : jparams) : bool :=
  match p with
  | PEc _ _ _ d => isn d
  | PRsa _ _ d p q dp dq qi oth => isn d && isn p && isn q && isn dp && isn dq && isn qi && isn oth
  | POct _ => false
  | POkp _ _ d => isn d
  end.
Definition params_is_private (p : jparams) : bool :=
  match p with
  | PEc _ _ _ d => negb (isn d)
  | PRsa _ _ d p q dp dq qi _ => negb (isn d) && negb (isn p) && negb (isn q) && negb (isn dp) && negb (isn dq) && negb (isn qi)
  | POct _ => true
  | POkp _ _ d => negb (isn d)
  end.

(* the private members a parameter set carries (member number, value) *)
Definition olist (n : Z) (o : option Z) : list (Z * Z) := match o with Some v => [(n, v)] | None => [] end.
Definition private_members (p : jparams) : list (Z * Z) :=
  match p with
  | PEc _ _ _ d => olist 4 d
  | PRsa _ _ d p q dp dq qi oth => olist 4 d ++ olist 7 p ++ olist 8 q ++ olist 9 dp ++ olist 10 dq ++ olist 11 qi ++ olist 12 oth
  | POct k => [(13, k)]
  | POkp _ _ d => olist 4 d
  end.
(* the required public members, in the lexicographic order of their names *)
Definition public_members (p : jparams) : list (Z * Z) :=
  match p with
  | PEc c x y _ => [(1, c); (2, x); (3, y)]
  | PRsa n e _ _ _ _ _ _ _ => [(6, e); (5, n)]
  | POct _ => []
  | POkp c x _ => [(1, c); (2, x)]
  end.

Definition jwk_new (k : jkty) : jwk :=
  {| j_kty := k; j_use := None; j_ops := None; j_alg := None; j_kid := None; j_x5u := None; j_x5c := None;
     j_x5t := None; j_x5ts := None; j_params := params_new k |}.
Definition jwk_from_params (p : jparams) : jwk :=
  {| j_kty := params_kty p; j_use := None; j_ops := None; j_alg := None; j_kid := None; j_x5u := None; j_x5c := None;
     j_x5t := None; j_x5ts := None; j_params := p |}.
Definition jwk_with_params (k : jwk) (t : jkty) (p : jparams) : jwk :=
  {| j_kty := t; j_use := j_use k; j_ops := j_ops k; j_alg := j_alg k; j_kid := j_kid k; j_x5u := j_x5u k;
     j_x5c := j_x5c k; j_x5t := j_x5t k; j_x5ts := j_x5ts k; j_params := p |}.
Definition jwk_set_kty (k : jwk) (t : jkty) : jwk := jwk_with_params k t (params_new t).
Definition jwk_set_params (k : jwk) (p : jparams) : option jwk :=
  if jkty_eqb (j_kty k) (params_kty p) then Some (jwk_with_params k (j_kty k) p) else None.

(* `*jwk.params_mut() = p`: the mutable accessor hands out the parameter value itself, so a whole-value assignment replaces the family
   without touching kty (known finding K_params_mut) *)
Definition jwk_params_mut_assign (k : jwk) (p : jparams) : jwk := jwk_with_params k (j_kty k) p.

Definition jwk_is_public (k : jwk) : bool := params_is_public (j_params k).
Definition jwk_is_private (k : jwk) : bool := params_is_private (j_params k).

Definition jwk_to_public_with (invert_always : bool) (k : jwk) : option jwk :=
  match params_to_public (j_params k) with
  | None => None
  | Some pp =>
      Some {| j_kty := params_kty pp; j_use := j_use k;
              j_ops := match j_ops k with
                       | Some ops => Some (if invert_always || negb (jwk_is_public k) then map jop_invert ops else ops)
                       | None => None end;
              j_alg := j_alg k; j_kid := j_kid k; j_x5u := None; j_x5c := None; j_x5t := None; j_x5ts := None;
              j_params := pp |}
  end.
Definition jwk_to_public : jwk -> option jwk := jwk_to_public_with false.
(* the pinned tree inverted key_ops unconditionally (finding F17) *)
Definition jwk_to_public_pinned : jwk -> option jwk := jwk_to_public_with true.

(* thumbprint hash input: the required members and kty (name 100), lexicographic by name *)
Definition jwk_thumbprint_input (k : jwk) : list (Z * Z) :=
  let kty := (100, jkty_code (j_kty k)) in
  match j_params k with
  | PEc c x y _ => [(1, c); kty; (2, x); (3, y)]
  | PRsa n e _ _ _ _ _ _ _ => [(6, e); kty; (5, n)]
  | POct kk => [(13, kk); kty]
  | POkp c x _ => [(1, c); kty; (2, x)]
  end.

Definition jwk_coherent (k : jwk) : bool := jkty_eqb (j_kty k) (params_kty (j_params k)).

(* ---- deserialisation: named fields + flattened untagged parameter enum ---- *)
Definition jlookup (n : Z) (m : list (Z * Z)) : option Z :=
  match find (fun e => fst e =? n) m with Some e => Some (snd e) | None => None end.

(* untagged: Ec (crv,x,y) -> Rsa (n,e) -> Oct (k) -> Okp (crv,x); unknown members are ignored *)
Definition params_deser (m : list (Z * Z)) : option jparams :=
  match jlookup 1 m, jlookup 2 m, jlookup 3 m with
  | Some c, Some x, Some y => Some (PEc c x y (jlookup 4 m))
  | _, _, _ =>
    match jlookup 5 m, jlookup 6 m with
    | Some n, Some e => Some (PRsa n e (jlookup 4 m) (jlookup 7 m) (jlookup 8 m) (jlookup 9 m) (jlookup 10 m) (jlookup 11 m) (jlookup 12 m))
    | _, _ =>
      match jlookup 13 m with
      | Some k => Some (POct k)
      | None =>
        match jlookup 1 m, jlookup 2 m with
        | Some c, Some x => Some (POkp c x (jlookup 4 m))
        | _, _ => None
        end
      end
    end
  end.

Definition jwk_deser_with (check : bool) (kty : jkty) (ops : option (list jop)) (m : list (Z * Z)) : option jwk :=
  match params_deser m with
  | None => None
  | Some p =>
      if check && negb (jkty_eqb kty (params_kty p)) then None else
      Some {| j_kty := kty; j_use := jlookup 20 m; j_ops := ops; j_alg := jlookup 22 m; j_kid := jlookup 23 m;
              j_x5u := jlookup 24 m; j_x5c := jlookup 25 m; j_x5t := jlookup 26 m; j_x5ts := jlookup 27 m;
              j_params := p |}
  end.
Definition jwk_deser := jwk_deser_with true.
Definition jwk_deser_pinned := jwk_deser_with false.   (* finding F16 *)

(* VerificationMethod::from_builder's guard on PublicKeyJwk data *)
Definition method_from_jwk (k : jwk) : option jwk := if jwk_is_public k then Some k else None.

(* jwk_ext.rs: `TryFrom<jsonprooftoken::jwk::key::Jwk> for Jwk`.  The foreign key declares a key type of its own (any of the four,
   never compared with its parameters by that crate) next to a parameter variant: elliptic curve (crv x y d?) or octet key pair
   (crv x d?).  Only elliptic-curve keys convert, and the result is declared EC whatever the foreign key said; an x5u that is
   not a URL is an error.  `pinned = true` is the tree before fix: the octet-key-pair arm was `unreachable!()`. *)
Inductive fparams := FEc (crv x y : Z) (d : option Z) | FOkp (crv x : Z) (d : option Z).
Record fjwk := { f_declared : jkty; f_params : fparams; f_kid : option Z; f_x5u : option (bool * Z); f_x5c : option Z; f_x5t : option Z }.
Inductive conv := CvOk (k : jwk) | CvErr | CvPanic.
Definition jwk_from_foreign (pinned : bool) (f : fjwk) : conv :=
  match f_x5u f with
  | Some (false, _) => CvErr
  | x5u =>
      match f_params f with
      | FEc c x y d =>
          CvOk {| j_kty := KEc; j_use := None; j_ops := None; j_alg := None; j_kid := f_kid f;
                  j_x5u := match x5u with Some (_, v) => Some v | None => None end;
                  j_x5c := f_x5c f; j_x5t := f_x5t f; j_x5ts := None; j_params := PEc c x y d |}
      | FOkp _ _ _ => if pinned then CvPanic else CvErr
      end
  end.
