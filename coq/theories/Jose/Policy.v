(* Model of the header policy (jwu/serde.rs: validate_jws_headers = validate_disjoint,
   validate_crit, validate_b64) and of the entry points that apply it. *)
From Coq Require Import List ZArith Bool.
From IdV Require Import Jose.Header.
Import ListNotations.
Open Scope Z_scope.

Definition omap {A B} (f : A -> B) (o : option A) : option B := match o with Some a => Some (f a) | None => None end.
Definition obool (o : option bool) : bool := match o with Some b => b | None => false end.

(* validate_crit *)
Definition validate_crit (p u : option hdr) : bool :=
  if obool (omap (fun h => hdr_has h N_CRIT) u) then false else
  let values := match p with Some h => h_crit h | None => None end in
  if (match values with Some [] => true | _ => false end) then false else
  forallb (fun v =>
    negb (predefined v) && permitted v &&
    (* protected.map(has).or_else(|| unprotected.map(has)).unwrap_or_default() *)
    (match p with
     | Some h => hdr_has h v
     | None => match u with Some h => hdr_has h v | None => false end
     end))
    (match values with Some vs => vs | None => [] end).

(* validate_b64, including its catch-all arm *)
Definition validate_b64 (p u : option hdr) : bool :=
  if (match u with Some h => match h_b64 h with Some _ => true | None => false end | None => false end) then false else
  let b64 := match p with Some h => h_b64 h | None => None end in
  let crit := match p with Some h => h_crit h | None => None end in
  match b64, crit with
  | Some _, Some vs => if mem N_B64 vs then true else true   (* `_ => Ok(())` arm *)
  | Some _, None => false
  | _, _ => true
  end.

Definition validate_disjoint (p u : option hdr) : bool :=
  match p, u with Some a, Some b => hdr_disjoint a b | _, _ => true end.

Definition validate_jws_headers (p u : option hdr) : bool :=
  validate_disjoint p u && validate_crit p u && validate_b64 p u.

(* extract_b64: header.and_then(b64).unwrap_or(true) *)
Definition extract_b64 (p : option hdr) : bool :=
  match p with Some h => match h_b64 h with Some b => b | None => true end | None => true end.

(* ---- entry points ---- *)
Definition some_header (p u : option hdr) : bool :=
  match p, u with None, None => false | _, _ => true end.

(* CompactJwsEncoder::new: protected header only *)
Definition enc_compact (p : hdr) : bool := validate_jws_headers (Some p) None.
(* FlattenedJwsEncoder::new, GeneralJwsEncoder::new: validate_headers_json_serialization *)
Definition enc_json (p u : option hdr) : bool := some_header p u && validate_jws_headers p u.
(* GeneralJwsEncoder::add_recipient: b64 must equal the first recipient's, then the same *)
Definition enc_add_recipient (first_b64 : bool) (p u : option hdr) : bool :=
  Bool.eqb (extract_b64 p) first_b64 && enc_json p u.
(* Decoder::decode_signature: validate, then DecodedHeaders::new needs a header *)
Definition dec_signature (p u : option hdr) : bool := validate_jws_headers p u && some_header p u.
(* Decoder::decode_general_serialization (after the decode-side b64 fix): the protected headers of all signatures (those that
   decode) must agree on b64 before any item is handed out; every item is then decoded on its own *)
Definition dec_general_consistent (ps : list (option hdr)) : bool :=
  match ps with
  | [] => true
  | p0 :: r => forallb (fun p => Bool.eqb (extract_b64 p) (extract_b64 p0)) r
  end.
(* the pinned tree had no such check *)
Definition dec_general_consistent_pinned (ps : list (option hdr)) : bool := true.
(* a two-signature token: the first signature's protected header has b64 = first_b64; is the second item handed out? *)
Definition dec_general_second (first_b64 : bool) (p u : option hdr) : bool :=
  Bool.eqb (extract_b64 p) first_b64 && dec_signature p u.
(* JwsValidationItem::verify: protected header with alg (then check_alg + verifier) *)
Definition verify_headers_ok (p u : option hdr) : bool :=
  match p with Some h => h_alg h | None => false end.

(* ---- the policy as the property states it ---- *)
Definition ocrit (p : option hdr) : list Z := match p with Some h => match h_crit h with Some l => l | None => [] end | None => [] end.
Definition ohas (p : option hdr) (c : Z) : bool := match p with Some h => hdr_has h c | None => false end.

Record policy_ok (p u : option hdr) : Prop := {
  (* crit only in the protected header *)
  pol_crit_protected : ohas u N_CRIT = false;
  (* crit not empty *)
  pol_crit_nonempty : (match p with Some h => h_crit h | None => None end) <> Some [];
  (* crit names no registered parameter, only implemented extensions, only parameters present *)
  pol_crit_names : forall c, In c (ocrit p) ->
      predefined c = false /\ permitted c = true /\ (ohas p c = true \/ ohas u c = true);
  (* b64 only in the protected header, and listed in crit *)
  pol_b64_protected : (match u with Some h => h_b64 h | None => None end) = None;
  pol_b64_in_crit : (match p with Some h => h_b64 h | None => None end) <> None -> In N_B64 (ocrit p);
  (* no parameter name present in both headers *)
  pol_disjoint : forall a b c, p = Some a -> u = Some b -> hdr_names a c = true -> hdr_names b c = true -> False;
}.

(* ---- JwkDocumentExt::create_jws (identity_storage/src/storage/jwk_document_ext.rs): the protected header it assembles
   from JwsSignatureOptions, as far as the policy looks at it.  alg always; kid always (the option's or the method id);
   jwk when attach_jwk; b64 = false together with crit = ["b64"] only when the option says false; typ always (the option's
   or "JWT"); cty / url / nonce when given; the custom map as given. ---- *)
Record sigopts := { so_attach_jwk : bool; so_b64 : option bool; so_cty : bool; so_url : bool; so_nonce : bool;
                    so_custom : option (list Z); so_detached : bool }.
(* JwkDocumentExt::create_credential_jwt / create_presentation_jwt refuse a detached payload and b64 = false before anything is signed *)
Definition jwt_opts_ok (o : sigopts) : bool := negb (so_detached o) && match so_b64 o with Some false => false | _ => true end.
Definition create_jws_header (o : sigopts) : hdr :=
  {| h_alg := true;
     h_b64 := match so_b64 o with Some false => Some false | _ => None end;
     h_crit := match so_b64 o with Some false => Some [N_B64] | _ => None end;
     h_common := [5] ++ (if so_attach_jwk o then [4] else []) ++ [10] ++ (if so_cty o then [11] else [])
                 ++ (if so_url o then [12] else []) ++ (if so_nonce o then [13] else []);
     h_custom := so_custom o |}.
