(* The shipped signature verifiers (identity_eddsa_verifier: EdDSAJwsVerifier, Ed25519Verifier; identity_ecdsa_verifier:
   EcDSAJwsVerifier, Secp256R1Verifier, Secp256K1Verifier): the logic AROUND the cryptographic primitive - dispatch on the header's
   algorithm, key family, curve name, coordinate decoding and lengths, signature length.  The primitives (point decoding, signature
   parsing, the signature equation) are Section variables. *)
From Coq Require Import List NArith Bool.
From IdV Require Import Lib.Base64 Jose.Jwk.
Import ListNotations.
Open Scope N_scope.

Inductive verr := UnsupportedAlg | UnsupportedKeyType | UnsupportedKeyParams | KeyDecodingFailure | InvalidSignature.
Inductive valg := AEdDSA | AES256 | AES256K | AOther.
(* what the verifiers read of the key: the parameter family, crv, x and y as written in the JWK (base64url text) *)
Record vkey := { vk_family : jkty; vk_crv : list N; vk_x : list N; vk_y : list N }.
Definition ED25519 : list N := [69; 100; 50; 53; 53; 49; 57].   (* "Ed25519" *)
Definition ED448 : list N := [69; 100; 52; 52; 56].
Definition bytes_eqb (a b : list N) : bool := if list_eq_dec N.eq_dec a b then true else false.

Section Primitives.
  Variable ed_point_ok : list N -> bool.                    (* ed25519::PublicKey::try_from(32 bytes) *)
  Variable ed_verify : list N -> list N -> list N -> bool.  (* PublicKey::verify(pk, signature of 64 bytes, message) *)
  Variable ec_point_ok : bool -> list N -> bool.            (* k1? ; PublicKey::from_encoded_point(x || y) *)
  Variable ec_sig_ok : bool -> list N -> bool.              (* Signature::try_from on 64 bytes: r, s in range *)
  Variable ec_verify : bool -> list N -> list N -> list N -> bool.

  Definition ed25519_verify (k : vkey) (sg msg : list N) : option verr :=          (* None = Ok(()) *)
    match vk_family k with
    | KOkp =>
        if negb (bytes_eqb (vk_crv k) ED25519) then Some UnsupportedKeyParams else      (* try_ed_curve().ok().filter(== Ed25519) *)
        match b64u_decode (vk_x k) with
        | None => Some KeyDecodingFailure
        | Some pk =>
            if negb (Nat.eqb (length pk) 32) then Some KeyDecodingFailure
            else if negb (ed_point_ok pk) then Some KeyDecodingFailure
            else if negb (Nat.eqb (length sg) 64) then Some InvalidSignature            (* <[u8; 64]>::try_from(slice): exact length *)
            else if ed_verify pk sg msg then None else Some InvalidSignature
        end
    | _ => Some UnsupportedKeyType
    end.
  Definition ecdsa_verify (k1 : bool) (k : vkey) (sg msg : list N) : option verr :=
    match vk_family k with
    | KEc =>
        match b64u_decode (vk_x k) with
        | None => Some KeyDecodingFailure
        | Some x =>
            match b64u_decode (vk_y k) with
            | None => Some KeyDecodingFailure
            | Some y =>
                if negb (Nat.eqb (length x) 32 && Nat.eqb (length y) 32) then Some KeyDecodingFailure
                else if negb (ec_point_ok k1 (x ++ y)) then Some KeyDecodingFailure
                else if negb (Nat.eqb (length sg) 64) then Some InvalidSignature      (* Signature::try_from(&[u8]): exactly 64 bytes *)
                else if negb (ec_sig_ok k1 sg) then Some InvalidSignature
                else if ec_verify k1 (x ++ y) sg msg then None else Some InvalidSignature
            end
        end
    | _ => Some UnsupportedKeyType
    end.
  (* the JwsVerifier implementations: dispatch on the algorithm of the protected header *)
  Definition eddsa_jws_verify (a : valg) (k : vkey) (sg msg : list N) : option verr :=
    match a with AEdDSA => ed25519_verify k sg msg | _ => Some UnsupportedAlg end.
  Definition ecdsa_jws_verify (a : valg) (k : vkey) (sg msg : list N) : option verr :=
    match a with AES256 => ecdsa_verify false k sg msg | AES256K => ecdsa_verify true k sg msg | _ => Some UnsupportedAlg end.
End Primitives.
