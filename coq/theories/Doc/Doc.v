(* Model of identity_document::CoreDocument as far as identifiers are concerned
   (core_document.rs, did_url_query.rs, queryable.rs, method_ref.rs):
   DIDs, path+query ("rest") and fragments are integers; method / service payloads are integers.
   The five verification relationships are a total map rel -> list mref.
   insert_method is the version after the `fix:` commit 83e09a8. *)
From Coq Require Import List ZArith Bool Arith.
Import ListNotations.
Open Scope Z_scope.

Record url := { u_did : Z; u_rest : Z; u_frag : option Z }.
Definition ofeqb (a b : option Z) : bool :=
  match a, b with Some x, Some y => x =? y | None, None => true | _, _ => false end.
Definition ueqb (a b : url) : bool := (u_did a =? u_did b) && (u_rest a =? u_rest b) && ofeqb (u_frag a) (u_frag b).

Record meth := { m_id : url; m_data : Z }.
Inductive mref := Embed (m : meth) | Refer (u : url).
Definition r_id (r : mref) : url := match r with Embed m => m_id m | Refer u => u end.
Definition is_embed (r : mref) : bool := match r with Embed _ => true | Refer _ => false end.
Record svc := { s_id : url; s_data : Z }.

Inductive rel := RAuth | RAssert | RKeyAgr | RCapDel | RCapInv.
Definition all_rels : list rel := [RAuth; RAssert; RKeyAgr; RCapDel; RCapInv].
Definition releqb (a b : rel) : bool :=
  match a, b with RAuth, RAuth | RAssert, RAssert | RKeyAgr, RKeyAgr | RCapDel, RCapDel | RCapInv, RCapInv => true | _, _ => false end.
Inductive scope := SVm | SRel (r : rel).

Record doc := { d_vm : list meth; d_rels : rel -> list mref; d_svc : list svc }.
Definition entries (d : doc) : list mref := flat_map (d_rels d) all_rels.
Definition upd (f : rel -> list mref) (r : rel) (l : list mref) : rel -> list mref :=
  fun r' => if releqb r' r then l else f r'.

(* DIDUrlQuery: optional DID, optional fragment; matches = DID equal (if given) and both fragments present and equal *)
Record query := { q_did : option Z; q_frag : option Z }.
Definition query_of_url (u : url) : query := {| q_did := Some (u_did u); q_frag := u_frag u |}.
Definition qmatches (q : query) (u : url) : bool :=
  (match q_did q with Some d => d =? u_did u | None => true end)
  && (match q_frag q, u_frag u with Some a, Some b => a =? b | _, _ => false end).

(* OrderedSet operations on the collections, keyed by the full id *)
Definition vm_has (l : list meth) (u : url) : bool := existsb (fun m => ueqb (m_id m) u) l.
Definition rl_has (l : list mref) (u : url) : bool := existsb (fun e => ueqb (r_id e) u) l.
Definition sv_has (l : list svc) (u : url) : bool := existsb (fun s => ueqb (s_id s) u) l.
Fixpoint vm_remove (l : list meth) (u : url) : list meth * option meth :=
  match l with [] => ([], None) | m :: r => if ueqb (m_id m) u then (r, Some m) else let '(r', o) := vm_remove r u in (m :: r', o) end.
Fixpoint rl_remove (l : list mref) (u : url) : list mref * option mref :=
  match l with [] => ([], None) | e :: r => if ueqb (r_id e) u then (r, Some e) else let '(r', o) := rl_remove r u in (e :: r', o) end.
Fixpoint sv_remove (l : list svc) (u : url) : list svc * option svc :=
  match l with [] => ([], None) | s :: r => if ueqb (s_id s) u then (r, Some s) else let '(r', o) := sv_remove r u in (s :: r', o) end.

(* Queryable::query: first entry whose key matches *)
Definition vm_query (l : list meth) (q : query) : option meth := find (fun m => qmatches q (m_id m)) l.
Definition rl_query (l : list mref) (q : query) : option mref := find (fun e => qmatches q (r_id e)) l.
Definition sv_query (l : list svc) (q : query) : option svc := find (fun s => qmatches q (s_id s)) l.

(* resolve_method_ref *)
Definition resolve_ref (d : doc) (e : mref) : option meth :=
  match e with Embed m => Some m | Refer u => vm_query (d_vm d) (query_of_url u) end.
(* resolve_method_inner: relationships in order, then the general-purpose methods *)
Fixpoint first_rel_match (d : doc) (q : query) (rs : list rel) : option mref :=
  match rs with
  | [] => None
  | r :: rs' => match rl_query (d_rels d r) q with Some e => Some e | None => first_rel_match d q rs' end
  end.
Definition resolve_method (d : doc) (q : query) (s : option scope) : option meth :=
  match s with
  | Some SVm => vm_query (d_vm d) q
  | Some (SRel r) => match rl_query (d_rels d r) q with Some e => resolve_ref d e | None => None end
  | None => match first_rel_match d q all_rels with
            | Some (Embed m) => Some m
            | Some (Refer u) => vm_query (d_vm d) (query_of_url u)
            | None => vm_query (d_vm d) q
            end
  end.
Definition resolve_service (d : doc) (q : query) : option svc := sv_query (d_svc d) q.
Definition methods (d : doc) (s : option scope) : list meth :=
  match s with
  | Some SVm => d_vm d
  | Some (SRel r) => flat_map (fun e => match resolve_ref d e with Some m => [m] | None => [] end) (d_rels d r)
  | None => d_vm d ++ flat_map (fun e => match e with Embed m => [m] | Refer _ => [] end) (entries d)
  end.

(* ---- mutations ---- *)
Inductive derr := EInsertMethod | EInsertService | EEmbedded | ENotFound.

(* the full-identifier part of the guard (fix 20cadcc): any method or service with this id, and - when
   embedding - any reference with this id *)
Definition id_in_use (d : doc) (u : url) (embeds : bool) : bool :=
  vm_has (d_vm d) u
  || existsb (fun e => match e with Embed m' => ueqb (m_id m') u | Refer v => embeds && ueqb v u end) (entries d)
  || sv_has (d_svc d) u.

Definition insert_method (d : doc) (m : meth) (s : scope) : doc + derr :=
  let embeds := match s with SVm => false | SRel _ => true end in
  if id_in_use d (m_id m) embeds
     || (match resolve_method d (query_of_url (m_id m)) None with Some _ => true | None => false end)
     || (match sv_query (d_svc d) (query_of_url (m_id m)) with Some _ => true | None => false end)
  then inr EInsertMethod
  else inl (match s with
            | SVm => {| d_vm := if vm_has (d_vm d) (m_id m) then d_vm d else d_vm d ++ [m]; d_rels := d_rels d; d_svc := d_svc d |}
            | SRel r => {| d_vm := d_vm d;
                           d_rels := upd (d_rels d) r (if rl_has (d_rels d r) (m_id m) then d_rels d r else d_rels d r ++ [Embed m]);
                           d_svc := d_svc d |}
            end).
(* the pinned tree's guard (only the two lookups), kept for the refutation of finding F14 *)
Definition insert_method_pinned (d : doc) (m : meth) (s : scope) : doc + derr :=
  if (match resolve_method d (query_of_url (m_id m)) None with Some _ => true | None => false end)
     || (match sv_query (d_svc d) (query_of_url (m_id m)) with Some _ => true | None => false end)
  then inr EInsertMethod
  else inl (match s with
            | SVm => {| d_vm := if vm_has (d_vm d) (m_id m) then d_vm d else d_vm d ++ [m]; d_rels := d_rels d; d_svc := d_svc d |}
            | SRel r => {| d_vm := d_vm d;
                           d_rels := upd (d_rels d) r (if rl_has (d_rels d r) (m_id m) then d_rels d r else d_rels d r ++ [Embed m]);
                           d_svc := d_svc d |}
            end).

(* remove_method_and_scope: all five relationship removals are performed; the first embedded hit
   (in relationship order) is returned, otherwise the removal from verificationMethod *)
Definition rels_removed (d : doc) (u : url) : rel -> list mref := fun r => fst (rl_remove (d_rels d r) u).
Definition first_embedded_removed (d : doc) (u : url) : option (meth * scope) :=
  let hits := flat_map (fun r => match snd (rl_remove (d_rels d r) u) with Some (Embed m) => [(m, SRel r)] | _ => [] end) all_rels in
  match hits with h :: _ => Some h | [] => None end.
Definition remove_method (d : doc) (u : url) : doc * option (meth * scope) :=
  match first_embedded_removed d u with
  | Some h => ({| d_vm := d_vm d; d_rels := rels_removed d u; d_svc := d_svc d |}, Some h)
  | None => let '(vm', o) := vm_remove (d_vm d) u in
            ({| d_vm := vm'; d_rels := rels_removed d u; d_svc := d_svc d |},
             match o with Some m => Some (m, SVm) | None => None end)
  end.

Definition insert_service (d : doc) (s : svc) : doc + derr :=
  if rl_has (entries d) (s_id s) || vm_has (d_vm d) (s_id s) || sv_has (d_svc d) (s_id s) then inr EInsertService
  else inl {| d_vm := d_vm d; d_rels := d_rels d; d_svc := d_svc d ++ [s] |}.
Definition remove_service (d : doc) (u : url) : doc * option svc :=
  let '(l, o) := sv_remove (d_svc d) u in ({| d_vm := d_vm d; d_rels := d_rels d; d_svc := l |}, o).

(* attach / detach: the query must resolve to a general-purpose method *)
Definition attach (d : doc) (q : query) (r : rel) : (doc * bool) + derr :=
  match resolve_method d q (Some SVm) with
  | None => match resolve_method d q None with Some _ => inr EEmbedded | None => inr ENotFound end
  | Some m => if rl_has (d_rels d r) (m_id m) then inl (d, false)
              else inl ({| d_vm := d_vm d; d_rels := upd (d_rels d) r (d_rels d r ++ [Refer (m_id m)]); d_svc := d_svc d |}, true)
  end.
Definition detach (d : doc) (q : query) (r : rel) : (doc * bool) + derr :=
  match resolve_method d q (Some SVm) with
  | None => match resolve_method d q None with Some _ => inr EEmbedded | None => inr ENotFound end
  | Some m => let '(l, o) := rl_remove (d_rels d r) (m_id m) in
              inl ({| d_vm := d_vm d; d_rels := upd (d_rels d) r l; d_svc := d_svc d |}, match o with Some _ => true | None => false end)
  end.

(* ---- the deserialisation gate ---- *)
Definition count_id (u : url) (l : list mref) : nat := length (filter (fun e => ueqb (r_id e) u) l).
(* declarative form *)
Definition check (d : doc) : bool :=
  forallb (fun e => negb (is_embed e) || (count_id (r_id e) (entries d) =? 1)%nat) (entries d)
  && forallb (fun m => negb (existsb (fun e => is_embed e && ueqb (r_id e) (m_id m)) (entries d))) (d_vm d)
  && forallb (fun s => negb (rl_has (entries d) (s_id s)) && negb (vm_has (d_vm d) (s_id s))) (d_svc d).

(* check_id_constraints as written: one pass with a map id -> "is embedded" *)
Definition amap := list (url * bool).
Fixpoint am_get (m : amap) (u : url) : option bool :=
  match m with [] => None | (k, v) :: r => if ueqb k u then Some v else am_get r u end.
Fixpoint am_set (m : amap) (u : url) (b : bool) : amap :=
  match m with [] => [(u, b)] | (k, v) :: r => if ueqb k u then (k, b) :: r else (k, v) :: am_set r u b end.
Fixpoint pass_rels (es : list mref) (m : amap) : option amap :=
  match es with
  | [] => Some m
  | e :: r =>
      match am_get m (r_id e) with
      | Some true => None
      | Some false => if is_embed e then None else pass_rels r (am_set m (r_id e) (is_embed e))
      | None => pass_rels r (am_set m (r_id e) (is_embed e))
      end
  end.
Fixpoint pass_vm (ms : list meth) (m : amap) : option amap :=
  match ms with
  | [] => Some m
  | x :: r => match am_get m (m_id x) with Some true => None | _ => pass_vm r (am_set m (m_id x) false) end
  end.
Definition check_id_constraints (d : doc) : bool :=
  match pass_rels (entries d) [] with
  | None => false
  | Some m1 => match pass_vm (d_vm d) m1 with
               | None => false
               | Some m2 => forallb (fun s => match am_get m2 (s_id s) with Some _ => false | None => true end) (d_svc d)
               end
  end.

(* OrderedSet invariants of the seven collections *)
Fixpoint nodup_by {A} (key : A -> url) (l : list A) : bool :=
  match l with [] => true | x :: r => negb (existsb (fun y => ueqb (key y) (key x)) r) && nodup_by key r end.
Definition sets_ok (d : doc) : bool :=
  nodup_by m_id (d_vm d) && forallb (fun r => nodup_by r_id (d_rels d r)) all_rels && nodup_by s_id (d_svc d).

Inductive dop :=
| OInsM (m : meth) (s : scope) | ORemM (u : url) | OInsS (s : svc) | ORemS (u : url)
| OAttach (q : query) (r : rel) | ODetach (q : query) (r : rel).
Definition dstep (d : doc) (o : dop) : doc :=
  match o with
  | OInsM m s => match insert_method d m s with inl d' => d' | inr _ => d end
  | ORemM u => fst (remove_method d u)
  | OInsS s => match insert_service d s with inl d' => d' | inr _ => d end
  | ORemS u => fst (remove_service d u)
  | OAttach q r => match attach d q r with inl (d', _) => d' | inr _ => d end
  | ODetach q r => match detach d q r with inl (d', _) => d' | inr _ => d end
  end.
Definition drun (ops : list dop) (d : doc) : doc := fold_left dstep ops d.
