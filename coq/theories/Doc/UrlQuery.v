(* DIDUrlQuery at string level (identity_document/src/utils/did_url_query.rs): what `resolve_method(query)` /
   `resolve_service(query)` make of the text they are handed.  Doc.v's `query` (optional DID, optional fragment) is the
   structured view; this file is the code that produces it.  `pfx` is the test for "the query carries a DID":
   "did:" since the fix, "did" (CoreDID::SCHEME) on the pinned tree. *)
From Coq Require Import List NArith Bool.
From IdV Require Import Cred.Bitmap Did.DidParse.
Import ListNotations.
Open Scope N_scope.

Definition PFX_PINNED : list N := [100; 105; 100].
Definition PFX_FIXED : list N := [100; 105; 100; 58].
(* str::find(char): the text before the first occurrence *)
Fixpoint before (c : N) (l : list N) : list N :=
  match l with [] => [] | x :: r => if x =? c then [] else x :: before c r end.
(* str::rfind('#') then get(index + 1..): the text after the LAST occurrence, None when there is none *)
Fixpoint after_last (c : N) (l : list N) : option (list N) :=
  match l with
  | [] => None
  | x :: r => match after_last c r with Some t => Some t | None => if x =? c then Some r else None end
  end.
(* end_pos = min of the three finds: the text before the first of ? / # *)
Definition q_did_str (pfx q : list N) : option (list N) :=
  if starts_with pfx q then Some (before 63 (before 47 (before 35 q))) else None.
Definition nonempty (o : option (list N)) : option (list N) := match o with Some [] => None | x => x end.
Definition q_fragment (pfx q : list N) : option (list N) :=
  nonempty (if starts_with pfx q then after_last 35 q
            else match after_last 35 q with Some t => Some t | None => Some q end).
(* matches(did_url): the DID agrees when the query names one, and both fragments are there and equal *)
Definition q_matches (pfx q did : list N) (frag : option (list N)) : bool :=
  (match q_did_str pfx q with Some d => list_eqb d did | None => true end)
  && (match q_fragment pfx q, frag with Some a, Some b => list_eqb a b | _, _ => false end).
(* resolve over a list of ids (DID, fragment): the first match *)
Fixpoint q_first (pfx q : list N) (ids : list (list N * option (list N))) (i : nat) : option nat :=
  match ids with
  | [] => None
  | (d, f) :: r => if q_matches pfx q d f then Some i else q_first pfx q r (S i)
  end.
