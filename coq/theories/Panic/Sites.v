(* Panic sites whose guard is logic (C05).  The sites of Timestamp, StatusList2021, the DID types and the key-binding
   validator live in their own models (three-valued outcome); this file adds IntegrityMetadata
   (identity_credential/src/sd_jwt_vc/metadata/integrity.rs), whose accessors unwrap what TryFrom validated. *)
From Coq Require Import List NArith Bool.
From IdV Require Import Lib.Outcome Lib.Base64 Cred.Bitmap.
Import ListNotations.
Open Scope N_scope.

(* str::split_once('-') *)
Fixpoint split_dash (s : list N) : option (list N * list N) :=
  match s with
  | [] => None
  | c :: r => if c =? 45 then Some ([], r) else match split_dash r with Some (a, b) => Some (c :: a, b) | None => None end
  end.
(* the first piece of str::split('-') *)
Definition first_piece (s : list N) : list N := match split_dash s with Some (a, _) => a | None => s end.
(* multibase Base64: standard alphabet, no padding *)
Definition digest_ok (d : list N) : bool := match b64s_decode d with Some _ => true | None => false end.
(* TryFrom<String>: splitn(3, '-'): a first piece, a second piece that decodes; the string itself is kept *)
Definition integrity_parse (s : list N) : option (list N) :=
  match split_dash s with
  | None => None
  | Some (_, rest) => if digest_ok (first_piece rest) then Some s else None
  end.
(* the accessors, with their unwraps *)
Definition im_alg (v : list N) : outcome (list N) unit := match split_dash v with Some (a, _) => Ok a | None => Panic end.
Definition im_digest (v : list N) : outcome (list N) unit := match split_dash v with Some (_, rest) => Ok (first_piece rest) | None => Panic end.
Definition im_digest_bytes (v : list N) : outcome (list N) unit :=
  match im_digest v with Ok d => match b64s_decode d with Some b => Ok b | None => Panic end | Err e => Err e | Panic => Panic end.
