(* Panic sites whose guard is logic (C05).  The sites of Timestamp, StatusList2021, the DID types and the key-binding
   validator live in their own models (three-valued outcome); this file adds IntegrityMetadata
   (identity_credential/src/sd_jwt_vc/metadata/integrity.rs), whose accessors unwrap what TryFrom validated. *)
From Coq Require Import List NArith Bool.
From IdV Require Import Lib.Outcome Lib.Base64 Cred.Bitmap.
Import ListNotations.
Open Scope N_scope.

(* str::split_once('-') *)
Fixpoint split_dash (s : list N) : option (list N * list N) :=
  match s with
  | [] => None
  | c :: r => if c =? 45 then Some ([], r) else match split_dash r with Some (a, b) => Some (c :: a, b) | None => None end
  end.
(* the first piece of str::split('-') *)
Definition first_piece (s : list N) : list N := match split_dash s with Some (a, _) => a | None => s end.
(* multibase Base64: standard alphabet, no padding *)
Definition digest_ok (d : list N) : bool := match b64s_decode d with Some _ => true | None => false end.
(* TryFrom<String>: splitn(3, '-'): a first piece, a second piece that decodes; the string itself is kept *)
Definition integrity_parse (s : list N) : option (list N) :=
  match split_dash s with
  | None => None
  | Some (_, rest) => if digest_ok (first_piece rest) then Some s else None
  end.
(* the accessors, with their unwraps *)
Definition im_alg (v : list N) : outcome (list N) unit := match split_dash v with Some (a, _) => Ok a | None => Panic end.
Definition im_digest (v : list N) : outcome (list N) unit := match split_dash v with Some (_, rest) => Ok (first_piece rest) | None => Panic end.
Definition im_digest_bytes (v : list N) : outcome (list N) unit :=
  match im_digest v with Ok d => match b64s_decode d with Some b => Ok b | None => Panic end | Err e => Err e | Panic => Panic end.

(* MethodDigest::pack / unpack (identity_storage/src/key_id_storage/method_digest.rs): one version byte and the
   little-endian u64.  The indexing `bytes[0]` and the slice `bytes[1..9]` panic when out of bounds; the length test
   in front of them is the guard. *)
Definition idx (l : list N) (i : nat) : outcome N unit := match nth_error l i with Some x => Ok x | None => Panic end.
Definition slice (l : list N) (a b : nat) : outcome (list N) unit :=
  if Nat.ltb (length l) b then Panic else if Nat.ltb b a then Panic else Ok (firstn (b - a) (skipn a l)).
Fixpoint le_bytes (n : nat) (v : N) : list N := match n with O => [] | S m => v mod 256 :: le_bytes m (v / 256) end.
Fixpoint from_le (l : list N) : N := match l with [] => 0 | b :: r => b + 256 * from_le r end.
Record mdigest := { md_version : N; md_value : N }.
Definition md_pack (d : mdigest) : list N := md_version d :: le_bytes 8 (md_value d).
Definition md_unpack (guarded : bool) (bytes : list N) : outcome mdigest unit :=
  if guarded && negb (Nat.eqb (length bytes) 9) then Err tt else
  match idx bytes 0 with
  | Ok version => if negb (version =? 0) then Err tt else
                  match slice bytes 1 9 with
                  | Ok s => if Nat.eqb (length s) 8 then Ok {| md_version := version; md_value := from_le s |} else Err tt   (* try_into [u8; 8] *)
                  | Err e => Err e | Panic => Panic end
  | Err e => Err e | Panic => Panic end.
