(* Model of identity_core::common::Timestamp (timestamp.rs) after the `fix:` commit that gates
   parse by year like from_unix.  A timestamp is its unix second count (OffsetDateTime in UTC
   with zero nanoseconds).  The RFC 3339 lexer follows time 0.3.55's well-known Rfc3339 parser
   as probed on the real crate (component rules listed in DESIGN.md, C13). *)
From Coq Require Import List ZArith NArith Bool.
From IdV Require Import Lib.Outcome Lib.Calendar.
Import ListNotations.
Open Scope Z_scope.

Definition TS_MIN : Z := -62167219200.   (* 0000-01-01T00:00:00Z *)
Definition TS_MAX : Z := 253402300799.   (* 9999-12-31T23:59:59Z *)

Inductive ts_err := TsInvalid.

Definition ts_dig (c : N) : option Z :=
  if ((48 <=? c) && (c <=? 57))%N then Some (Z.of_N c - 48) else None.
Definition ts_dig2 (a b : N) : option Z :=
  match ts_dig a, ts_dig b with Some x, Some y => Some (10 * x + y) | _, _ => None end.
Definition ts_dig4 (a b c d : N) : option Z :=
  match ts_dig2 a b, ts_dig2 c d with Some x, Some y => Some (100 * x + y) | _, _ => None end.

Record ts_comps := { c_yr : Z; c_mo : Z; c_dy : Z; c_hh : Z; c_mi : Z; c_ss : Z;
                     c_off : Z (* signed offset in seconds *); c_offh : Z; c_offm : Z }.

(* skip one or more fraction digits *)
Fixpoint ts_skip_digits (l : list N) : list N :=
  match l with
  | c :: r => match ts_dig c with Some _ => ts_skip_digits r | None => l end
  | [] => []
  end.

(* "Z" | "z" | ("+"|"-") HH ":" MM, then end of input *)
Definition ts_lex_offset (l : list N) : option (Z * Z * Z) :=
  match l with
  | [z] => if ((z =? 90) || (z =? 122))%N then Some (0, 0, 0) else None
  | [sg; h1; h2; col; m1; m2] =>
      if negb (col =? 58)%N then None else
      match ts_dig2 h1 h2, ts_dig2 m1 m2 with
      | Some h, Some m =>
          if (sg =? 43)%N then Some (h * 3600 + m * 60, h, m)
          else if (sg =? 45)%N then Some (- (h * 3600 + m * 60), h, m)
          else None
      | _, _ => None
      end
  | _ => None
  end.

Definition ts_lex_tail (l : list N) : option (Z * Z * Z) :=
  match l with
  | dot :: d1 :: r =>
      if (dot =? 46)%N then
        match ts_dig d1 with
        | Some _ => ts_lex_offset (ts_skip_digits r)
        | None => None
        end
      else ts_lex_offset l
  | _ => ts_lex_offset l
  end.

Definition ts_lex (s : list N) : option ts_comps :=
  match s with
  | y1 :: y2 :: y3 :: y4 :: da1 :: m1 :: m2 :: da2 :: d1 :: d2 :: sep ::
    h1 :: h2 :: co1 :: mi1 :: mi2 :: co2 :: s1 :: s2 :: rest =>
      (* the date/time separator is ANY single byte (time: "RFC3339 allows any separator") *)
      if negb ((da1 =? 45) && (da2 =? 45) && (co1 =? 58) && (co2 =? 58))%N then None else
      match ts_dig4 y1 y2 y3 y4, ts_dig2 m1 m2, ts_dig2 d1 d2, ts_dig2 h1 h2, ts_dig2 mi1 mi2, ts_dig2 s1 s2,
            ts_lex_tail rest with
      | Some y, Some m, Some d, Some hh, Some mi, Some ss, Some (off, oh, om) =>
          Some {| c_yr := y; c_mo := m; c_dy := d; c_hh := hh; c_mi := mi; c_ss := ss;
                  c_off := off; c_offh := oh; c_offm := om |}
      | _, _, _, _, _, _, _ => None
      end
  | _ => None
  end.

Definition ts_valid (c : ts_comps) : bool :=
  (1 <=? c_mo c) && (c_mo c <=? 12) && (1 <=? c_dy c) && (c_dy c <=? dim (c_yr c) (c_mo c))
  && (c_hh c <=? 23) && (c_mi c <=? 59) && (c_ss c <=? 60) && (c_offh c <=? 23) && (c_offm c <=? 59).

(* year gate of from_unix, and of parse after the fix *)
Definition ts_gate (t : Z) : bool :=
  let y := year_of_days (t / 86400) in (0 <=? y) && (y <=? 9999).

(* a ":60" is accepted only if the UTC instant is 23:59:59 on the last day of a month *)
Definition ts_leap_ok (utc : Z) : bool :=
  let '(y, m, d) := civil_from_days (utc / 86400) in
  (utc mod 86400 =? 86399) && (d =? dim y m).

(* the instant a component set denotes, in unix seconds (fraction dropped; :60 counted as :59) *)
Definition ts_instant (c : ts_comps) : Z :=
  days_from_civil (c_yr c) (c_mo c) (c_dy c) * 86400 + c_hh c * 3600 + c_mi c * 60
  + (if c_ss c =? 60 then 59 else c_ss c) - c_off c.

Definition ts_parse (s : list N) : outcome Z ts_err :=
  match ts_lex s with
  | None => Err TsInvalid
  | Some c =>
      if negb (ts_valid c) then Err TsInvalid else
      let utc := ts_instant c in
      if (c_ss c =? 60) && negb (ts_leap_ok utc) then Err TsInvalid
      else if ts_gate utc then Ok utc else Err TsInvalid
  end.

Definition ts_from_unix (z : Z) : outcome Z ts_err := if ts_gate z then Ok z else Err TsInvalid.

Definition ts_fmt2 (n : Z) : list N := [Z.to_N (48 + n / 10); Z.to_N (48 + n mod 10)].
Definition ts_fmt4 (n : Z) : list N := ts_fmt2 (n / 100) ++ ts_fmt2 (n mod 100).

(* format(&Rfc3339).expect(..): Panic iff the year is outside 0..9999 *)
Definition ts_to_rfc3339 (t : Z) : outcome (list N) ts_err :=
  let '(y, m, d) := civil_from_days (t / 86400) in
  let sod := t mod 86400 in
  if (0 <=? y) && (y <=? 9999) then
    Ok (ts_fmt4 y ++ [45%N] ++ ts_fmt2 m ++ [45%N] ++ ts_fmt2 d ++ [84%N] ++ ts_fmt2 (sod / 3600) ++ [58%N]
        ++ ts_fmt2 (sod mod 3600 / 60) ++ [58%N] ++ ts_fmt2 (sod mod 60) ++ [90%N])
  else Panic.

(* checked_add / checked_sub: OffsetDateTime arithmetic then from_unix's gate *)
Definition ts_checked_add (t d : Z) : option Z := if ts_gate (t + d) then Some (t + d) else None.
Definition ts_checked_sub (t d : Z) : option Z := if ts_gate (t - d) then Some (t - d) else None.

(* a Duration that arrived through serde is (seconds, nanoseconds) of any sign: the result is the instant truncated (floored) to the second,
   re-validated by from_unix *)
Definition NS : Z := 1000000000.
Definition ts_checked_add_ns (t secs nanos : Z) : option Z :=
  let s := (t * NS + (secs * NS + nanos)) / NS in if ts_gate s then Some s else None.
Definition ts_checked_sub_ns (t secs nanos : Z) : option Z :=
  let s := (t * NS - (secs * NS + nanos)) / NS in if ts_gate s then Some s else None.

(* Duration constructors: unit in seconds times a u32 count *)
Definition ts_unit (u : Z) : Z :=
  if u =? 0 then 1 else if u =? 1 then 60 else if u =? 2 then 3600 else if u =? 3 then 86400 else 604800.
