(* Models of OneOrSet (one_or_set.rs) and OneOrMany (one_or_many.rs) with (de)serialisation
   at the level of JSON shape: a value is either a scalar or an array of scalars.  Element
   JSON is assumed to be a scalar (never an array), which holds for every instantiation in
   the repository (strings, URLs, DIDs, objects). *)
From Coq Require Import List Bool Arith.
From IdV Require Import Core.OrdSet.
Import ListNotations.

Section OneOr.
  Variables (T K : Type) (key : T -> K) (keqb : K -> K -> bool).

  Inductive jshape := JVal (x : T) | JArr (xs : list T).

  (* ---------- OneOrSet ---------- *)
  Inductive oneorset := OSOne (x : T) | OSSet (l : list T).

  Definition oos_new_one (x : T) : oneorset := OSOne x.
  (* new_set: Err if empty; len == 1 -> One; else Set *)
  Definition oos_new_set (l : list T) : option oneorset :=
    match l with
    | [] => None
    | [x] => Some (OSOne x)
    | _ => Some (OSSet l)
    end.
  (* TryFrom<Vec<T>>: OrderedSet::try_from then new_set *)
  Definition oos_try_from_vec (l : list T) : option oneorset :=
    match os_try_from_vec T K key keqb l with
    | None => None
    | Some s => oos_new_set s
    end.
  Definition oos_to_list (v : oneorset) : list T :=
    match v with OSOne x => [x] | OSSet l => l end.
  Definition oos_len (v : oneorset) : nat := length (oos_to_list v).
  Definition oos_append (v : oneorset) (x : T) : oneorset * bool :=
    match v with
    | OSOne y => if keqb (key y) (key x) then (v, false)
                 else (OSSet (os_from_iter T K key keqb [y; x]), true)
    | OSSet l => let '(l', b) := os_append T K key keqb l x in (OSSet l', b)
    end.
  (* map with a function into the same carrier (keys may collapse) *)
  Definition oos_map (f : T -> T) (v : oneorset) : oneorset :=
    match v with
    | OSOne x => OSOne (f x)
    | OSSet l => match os_from_iter T K key keqb (map f l) with
                 | [x] => OSOne x
                 | l' => OSSet l'
                 end
    end.
  (* serde: transparent over the untagged inner enum *)
  Definition oos_ser (v : oneorset) : jshape :=
    match v with OSOne x => JVal x | OSSet l => JArr l end.
  (* untagged: One(T) first; Set via OrderedSet's try_from = "Vec<T>" + non-empty test; since fix (OneOrSet::deserialize) a set of one
     item is held as One, like every constructor does.  `pinned = true` is the tree before: ["a"] stayed a one-element Set *)
  Definition oos_deser_gen (pinned : bool) (j : jshape) : option oneorset :=
    match j with
    | JVal x => Some (OSOne x)
    | JArr xs => match os_try_from_vec T K key keqb xs with
                 | Some [] => None
                 | Some [x] => if pinned then Some (OSSet [x]) else Some (OSOne x)
                 | Some s => Some (OSSet s)
                 | None => None
                 end
    end.
  Definition oos_deser := oos_deser_gen false.
  (* the type's invariant: what values can exist at all (private inner enum): a Set holds at least two items *)
  Definition oos_wf (v : oneorset) : Prop :=
    match v with OSOne _ => True | OSSet l => (2 <= length l)%nat /\ NoDup (map key l) end.

  (* ---------- OneOrMany ---------- *)
  Inductive oneormany := OMOne (x : T) | OMMany (l : list T).

  Definition oom_from_vec (l : list T) : oneormany :=
    match l with [x] => OMOne x | _ => OMMany l end.
  Definition oom_push (v : oneormany) (x : T) : oneormany :=
    match v with
    | OMOne y => OMMany [y; x]
    | OMMany [] => OMOne x
    | OMMany l => OMMany (l ++ [x])
    end.
  Definition oom_to_list (v : oneormany) : list T :=
    match v with OMOne x => [x] | OMMany l => l end.
  Definition oom_ser (v : oneormany) : jshape :=
    match v with OMOne x => JVal x | OMMany l => JArr l end.
  Definition oom_deser (j : jshape) : option oneormany :=
    match j with JVal x => Some (OMOne x) | JArr xs => Some (OMMany xs) end.
  (* FromIterator: equals from(Vec) on every exact-size iterator *)
  Definition oom_from_iter (l : list T) : oneormany := oom_from_vec l.
End OneOr.

Arguments JVal {T} x.
Arguments JArr {T} xs.
Arguments OSOne {T} x.
Arguments OSSet {T} l.
Arguments OMOne {T} x.
Arguments OMMany {T} l.
