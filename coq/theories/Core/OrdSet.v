(* Model of identity_core::common::OrderedSet (ordered_set.rs), written in the shape of the
   Rust code (position / drain / filter / extend / insert), plus the abstract duplicate-free
   list specification the property refers to.  Proofs are in Proofs/OrdSetProofs.v. *)
From Coq Require Import List Bool Arith.
Import ListNotations.

Section OrdSet.
  Variables (T K : Type) (key : T -> K) (keqb : K -> K -> bool).

  Definition os_has_key (k : K) (x : T) : bool := keqb (key x) k.
  (* contains: self.0.iter().any(|other| other.key() == item.key()) *)
  Definition os_contains (l : list T) (k : K) : bool := existsb (os_has_key k) l.

  Definition os_append (l : list T) (x : T) : list T * bool :=
    if os_contains l (key x) then (l, false) else (l ++ [x], true).
  Definition os_prepend (l : list T) (x : T) : list T * bool :=
    if os_contains l (key x) then (l, false) else (x :: l, true).

  Fixpoint os_position (f : T -> bool) (l : list T) : option nat :=
    match l with
    | [] => None
    | x :: r => if f x then Some 0 else option_map S (os_position f r)
    end.

  (* Rust `change`: index = position(f); keep = drain(index..).filter(!f); extend(keep);
     insert(index, data); returns index.is_some() *)
  Definition os_change (l : list T) (d : T) (f : T -> bool) : list T * bool :=
    match os_position f l with
    | None => (l, false)
    | Some i =>
        let pre := firstn i l in
        let keep := filter (fun x => negb (f x)) (skipn i l) in
        (firstn i (pre ++ keep) ++ d :: skipn i (pre ++ keep), true)
    end.

  Definition os_replace (l : list T) (cur : K) (upd : T) : list T * bool :=
    os_change l upd (fun it => keqb (key it) cur || keqb (key it) (key upd)).
  Definition os_update (l : list T) (upd : T) : list T * bool :=
    os_change l upd (fun it => keqb (key it) (key upd)).

  (* remove: first entry with the key, Vec::remove(idx) *)
  Fixpoint os_remove (l : list T) (k : K) : list T * option T :=
    match l with
    | [] => ([], None)
    | x :: r => if os_has_key k x then (r, Some x)
                else let '(r', o) := os_remove r k in (x :: r', o)
    end.

  (* FromIterator: append each, ignoring duplicates *)
  Definition os_from_iter (l : list T) : list T :=
    fold_left (fun acc x => fst (os_append acc x)) l [].

  (* TryFrom<Vec<T>>: append each, error on the first duplicate *)
  Fixpoint os_try_from_aux (acc : list T) (l : list T) : option (list T) :=
    match l with
    | [] => Some acc
    | x :: r => if os_contains acc (key x) then None else os_try_from_aux (acc ++ [x]) r
    end.
  Definition os_try_from_vec (l : list T) : option (list T) := os_try_from_aux [] l.

  (* ---- abstract specification: duplicate-free lists ---- *)

  (* first element matched by f becomes d, every other matched element disappears,
     everything else keeps its place *)
  Fixpoint spec_change (l : list T) (d : T) (f : T -> bool) : list T * bool :=
    match l with
    | [] => ([], false)
    | x :: r => if f x then (d :: filter (fun y => negb (f y)) r, true)
                else let '(r', b) := spec_change r d f in (x :: r', b)
    end.

  (* keep the first occurrence of every key *)
  Fixpoint spec_dedup (l : list T) : list T :=
    match l with
    | [] => []
    | x :: r => x :: filter (fun y => negb (keqb (key y) (key x))) (spec_dedup r)
    end.

  Inductive os_op :=
  | OpAppend (x : T) | OpPrepend (x : T) | OpReplace (k : K) (x : T) | OpUpdate (x : T) | OpRemove (k : K).

  (* one step: new list, result flag, removed element (for remove) *)
  Definition os_step (l : list T) (o : os_op) : list T * (bool * option T) :=
    match o with
    | OpAppend x => let '(l', b) := os_append l x in (l', (b, None))
    | OpPrepend x => let '(l', b) := os_prepend l x in (l', (b, None))
    | OpReplace k x => let '(l', b) := os_replace l k x in (l', (b, None))
    | OpUpdate x => let '(l', b) := os_update l x in (l', (b, None))
    | OpRemove k => let '(l', o) := os_remove l k in
                    (l', (match o with Some _ => true | None => false end, o))
    end.

  Definition spec_step (l : list T) (o : os_op) : list T * (bool * option T) :=
    match o with
    | OpAppend x => if os_contains l (key x) then (l, (false, None)) else (l ++ [x], (true, None))
    | OpPrepend x => if os_contains l (key x) then (l, (false, None)) else (x :: l, (true, None))
    | OpReplace k x =>
        let '(l', b) := spec_change l x (fun it => keqb (key it) k || keqb (key it) (key x)) in (l', (b, None))
    | OpUpdate x =>
        let '(l', b) := spec_change l x (fun it => keqb (key it) (key x)) in (l', (b, None))
    | OpRemove k => let '(l', o) := os_remove l k in
                    (l', (match o with Some _ => true | None => false end, o))
    end.

  Definition os_run (ops : list os_op) (l : list T) : list T :=
    fold_left (fun l o => fst (os_step l o)) ops l.
End OrdSet.

Arguments OpAppend {T K} x.
Arguments OpPrepend {T K} x.
Arguments OpReplace {T K} k x.
Arguments OpUpdate {T K} x.
Arguments OpRemove {T K} k.
