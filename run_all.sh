#!/bin/sh
# runs every claimed check's quick command on the current tree (refreshes evidence/); prints one line each
cd "$(dirname "$0")"
for id in $(python3 -c "import json;print(' '.join(c['property_id'] for c in json.load(open('MANIFEST.json'))['checks']))"); do
  if [ -n "$1" ] && ! echo "$*" | grep -qw "$id"; then continue; fi
  ./check $id --tier quick | grep -E "^(C[0-9]+ tier|VIOLATION|KNOWN-FINDING|INFRA|PROOF)" 
done
