#!/bin/sh
# Builds the extracted model + driver.  Run from anywhere.
set -e
cd "$(dirname "$0")"
[ -f ../coq/Makefile ] || (cd ../coq && coq_makefile -f _CoqProject -o Makefile >/dev/null)
make -C ../coq -j16 theories/Run/Dispatch.vo >/dev/null
mkdir -p _build
cd _build
coqc -Q ../../coq/theories IdV ../../coq/theories/Extract/Extract.v -o ./Extract.vo >/dev/null
cp ../runner.ml .
ocamlfind ocamlopt -O3 -w -a -package str model.mli model.ml runner.ml -o ../model_runner 2>/dev/null || \
ocamlfind ocamlopt -w -a model.mli model.ml runner.ml -o ../model_runner
