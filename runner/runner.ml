(* model_runner: reads case lines
     C<nn> <ints...> | <obs ints...> | <verdict> # human readable text
   recomputes the observation with the extracted Coq model (Model.run_case) and prints one line
     DIFF <lineno> model=<ints>
   for every line whose observation differs, then  DONE <cases> <diffs>.
   With --print it prints the model observation of every line instead (used by the in-Coq
   cross-check).  This file is trusted glue: decimal <-> Z conversion and line splitting only. *)
open Model

let rec pos_of_int (n : int) : positive =
  if n = 1 then XH else if n land 1 = 0 then XO (pos_of_int (n lsr 1)) else XI (pos_of_int (n lsr 1))

let z_of_int (n : int) : z = if n = 0 then Z0 else if n > 0 then Zpos (pos_of_int n) else Zneg (pos_of_int (-n))

let ten = z_of_int 10
let z_of_string (s : string) : z =
  match int_of_string_opt s with
  | Some n when n > min_int -> z_of_int n
  | _ ->
    let neg = String.length s > 0 && s.[0] = '-' in
    let start = if neg || (String.length s > 0 && s.[0] = '+') then 1 else 0 in
    let acc = ref Z0 in
    for i = start to String.length s - 1 do
      let d = Char.code s.[i] - 48 in
      if d < 0 || d > 9 then failwith ("bad integer " ^ s);
      acc := Z.add (Z.mul !acc ten) (z_of_int d)
    done;
    if neg then Z.opp !acc else !acc

let rec pos_to_int (p : positive) : int =
  match p with
  | XH -> 1
  | XO q -> let r = pos_to_int q in if r > max_int / 2 then raise Exit else 2 * r
  | XI q -> let r = pos_to_int q in if r > (max_int - 1) / 2 then raise Exit else 2 * r + 1

let rec z_to_string (v : z) : string =
  match v with
  | Z0 -> "0"
  | Zpos p -> (try string_of_int (pos_to_int p) with Exit -> big_to_string v)
  | Zneg p -> (try string_of_int (- (pos_to_int p)) with Exit -> "-" ^ big_to_string (Zpos p))
and big_to_string (v : z) : string =
  (* v > 0, too large for an OCaml int: peel decimal digits with the extracted div/mod *)
  let q = Z.div v ten and r = Z.modulo v ten in
  (match q with Z0 -> "" | _ -> z_to_string q) ^ z_to_string r

let split_ws (s : string) : string list =
  List.filter (fun t -> t <> "") (String.split_on_char ' ' (String.trim s))

let () =
  let print_mode = Array.length Sys.argv > 2 && Sys.argv.(1) = "--print" in
  let file = Sys.argv.(Array.length Sys.argv - 1) in
  let ic = open_in file in
  let lineno = ref 0 and cases = ref 0 and diffs = ref 0 in
  (try
    while true do
      let line = input_line ic in
      incr lineno;
      if String.length line > 0 && line.[0] = 'C' then begin
        let body = match String.index_opt line '#' with Some i -> String.sub line 0 i | None -> line in
        match String.split_on_char '|' body with
        | inp :: obs :: _ ->
          (match split_ws inp with
           | pid :: ints ->
             incr cases;
             let prop = z_of_string (String.sub pid 1 (String.length pid - 1)) in
             let input = List.map z_of_string ints in
             let out = run_case prop input in
             let outs = String.concat " " (List.map z_to_string out) in
             let impl = String.concat " " (split_ws obs) in
             if print_mode then Printf.printf "%d %s\n" !lineno outs
             (* "-5555": the model makes no prediction for this case (an entry point it does not cover); the oracle alone decides *)
             else if outs <> "-5555" && outs <> impl then begin
               incr diffs;
               Printf.printf "DIFF %d model=%s\n" !lineno outs
             end
           | [] -> ())
        | _ -> ()
      end
    done
  with End_of_file -> ());
  close_in ic;
  Printf.printf "DONE %d %d\n" !cases !diffs
