#!/bin/sh
# Builds the framework from files on disk only (offline): Coq development (full .vo), extracted
# model runner, Rust harness against /repo's working tree.
set -e
cd "$(dirname "$0")"
export CARGO_NET_OFFLINE=true
mkdir -p work evidence
( cd coq && coq_makefile -f _CoqProject -o Makefile >/dev/null && timeout 3000 make -j16 )
./runner/build.sh
[ -f harness/Cargo.lock ] || cp /repo/Cargo.lock harness/Cargo.lock
( cd harness && cargo build --offline 2>&1 | tail -3 )
echo "setup done"
